"""C10 - delayed reactions deliver their delayed part exactly once, after the delay (DESIGN.md 4.6)."""
import numpy as np

from simkit import distoracle, pathinv, refmodel as rm, seeds, ssaengine as eng
from checks import c06

PROPERTY = "C10"
LEVEL = "exploration"
RULE = ("case = seeded network with delayed products / marker-style delayed reactants x delay family (fixed, Gaussian, "
        "Gamma k>=1) with scales from dt/50 to 3x the horizon (and a far-beyond stratum up to 1e12) x grid x "
        "{delay SSA, delay+volume SSA, and the two simulators without delay support} x seeded/scripted stream "
        "(neg_delay, tiny, late, burst, stall); lock-step with a reference queue + protocol-free accounting "
        "fired = delivered + still queued from the public API; non-trivial = run with >= 1 firing of a delayed reaction; "
        "distinct = distinct per-interval (event kind, reaction) signatures. Zero-delay clause: CME goodness of fit "
        "(coverage.distribution_tests)")
ASSUMPTIONS = c06.ASSUMPTIONS + [
    "delayed reactants are generated marker-style (produced by the immediate part of the same reaction) so that counts stay "
    "non-negative; arbitrary delayed reactants would leave the domain in which rates are specified",
    "'to the resolution of the time grid': a delivery takes effect in the slot nearest to t_fire + delay; the row at that "
    "very grid time may or may not show it yet",
]
COMPONENTS = c06.COMPONENTS
TIERS = {
    "quick": {"cases": 20000, "block": 200, "case_timeout": 30.0, "dist_models": 26, "dist_N": 40000},
    "thorough": {"cases": 500000, "block": 500, "case_timeout": 60.0, "dist_models": 130, "dist_N": 400000},
}
MODES = ["delay"] * 6 + ["delayvolume"] * 2 + ["ssa", "volume"]


def gen_case(case_seed, cfg):
    case = c06.gen_case(case_seed, cfg, modes=MODES, plain_delay_p=1.0, far_p=0.08, nonuniform_p=0.0)
    r = seeds.rng(case_seed, "c10")
    if case["mode"] == "delay" and len(case["grid"]) >= 5 and r.random() < 0.3:
        # continued run: the second segment starts from the first one's final state and returned queue
        case["entry"] = "direct"
        case["split"] = r.randint(1, len(case["grid"]) - 3)
    return case


def accounting(case, raw, stats):
    """Protocol-free: last row = x0 + sum fired*S_imm + sum (fired - queued)*S_del, queued drained from the result."""
    model = case["model"]
    if model.get("rules"):
        return []
    sp = model["species"]
    R = len(model["reactions"])
    fired = [0] * R
    for rec in raw["recs"]:
        if rec[0] == "D":
            if 0 <= rec[3] < R:
                fired[rec[3]] += 1
    queued = [0.0] * R
    for (_, a) in raw["queue"]:
        for j in range(R):
            queued[j] += a[j]
    order = raw["species_order"]
    perm = [order.index(s) for s in sp]
    rows = raw["rows"][:, perm]
    if raw.get("divided"):
        return []     # the run stopped at division: the last row is not the final state of the queue
    x = np.array([float(model["init"].get(s, 0)) for s in sp])
    viols = []
    sig = {"mode": case["mode"], "safe": bool(case.get("safe"))}
    for j, rxn in enumerate(model["reactions"]):
        imm, dly = rm.stoich_columns(rxn)
        if queued[j] < 0 or queued[j] != int(queued[j]) or queued[j] > fired[j]:
            viols.append({"class": "queue_count_impossible", "signature": sig,
                          "detail": {"reaction": j, "fired": fired[j], "queued": queued[j]}})
            return viols
        if queued[j] and not any(dly.values()):
            pass
        for i, s in enumerate(sp):
            x[i] += fired[j] * imm.get(s, 0) + (fired[j] - queued[j]) * dly.get(s, 0)
    stats["accounting_runs"] = stats.get("accounting_runs", 0) + 1
    stats["still_queued"] = stats.get("still_queued", 0) + int(sum(queued))
    if not np.array_equal(rows[-1], x):
        # (no allowance for deliveries "applied after the last row": whatever is due at the final grid time is either in
        # the last row or still in the returned queue - a result from which it has vanished cannot be continued)
        viols.append({"class": "firings_not_accounted_for", "signature": sig,
                      "detail": {"last_row": rows[-1].tolist(), "expected_from_firings": x.tolist(), "fired": fired,
                                 "queued": queued}})
    return viols


def run_case(case):
    if case.get("_dist"):
        out = distoracle.run_dist_case(case, case["N"])
        return {"violations": out["violations"], "stats": out["stats"], "sig": None, "nontrivial": False,
                "digest": out["digest"]}
    raw = eng.execute(case)
    ls = eng.lockstep(case, raw)
    stats = dict(ls["stats"])
    viols = list(ls["violations"])
    ref = ls.get("ref")
    stats["mode_" + case["mode"]] = 1
    if case.get("split"):
        stats["fired_continued_run"] = 1
    if not raw.get("error"):
        if not case.get("split"):
            viols += pathinv.check_rows(case, raw, stats)
        if case["mode"] in ("delay", "delayvolume") and not raw.get("dropped"):
            viols += accounting(case, raw, stats)
    c06.fault_counters(case, raw, ref, stats)
    nfire = sum(ref.n_fired) if ref is not None else 0
    ndelayed = 0
    if ref is not None:
        for j, rx in enumerate(case["model"]["reactions"]):
            if rx.get("delay"):
                ndelayed += ref.n_fired[j]
                stats["dtype_" + rx["delay"]["type"]] = stats.get("dtype_" + rx["delay"]["type"], 0) + ref.n_fired[j]
                if rx["delay"].get("reactants"):
                    stats["delayed_reactant_firings"] = stats.get("delayed_reactant_firings", 0) + ref.n_fired[j]
        if hasattr(ref, "n_delivered"):
            stats["deliveries"] = sum(ref.n_delivered)
            stats["immediate_deliveries"] = sum(ref.n_immediate_delivery)
            q = ref.queue
            if any(e[3] == q.entries[0][3] for e in q.entries[1:]) if q.entries else False:
                stats["fired_same_slot_many"] = 1
    stats["firings"] = nfire
    stats["delayed_firings"] = ndelayed
    return {"violations": viols, "stats": stats, "sig": eng.event_signature(ref, case),
            "nontrivial": ndelayed >= 1, "digest": eng.digest(raw), "sim_time": case["grid"][-1]}


def crash_signature(case):
    return {"mode": case.get("mode", case.get("kind")), "safe": bool(case.get("safe"))}


def shrink(case):
    if case.get("_dist"):
        return
    yield from c06.shrink(case)


def sample(case, res):
    d = c06.sample(case, res)
    d["delays"] = [rx.get("delay") for rx in case["model"]["reactions"]][:3]
    return d


def extra_phases(ctx):
    cfg = ctx["cfg"]
    return distoracle.run_phase(ctx, PROPERTY, "delay0", cfg["dist_models"], cfg["dist_N"])


def reach_warnings(stats):
    out = []
    for k in ("fired_burst", "fired_stall", "fired_neg_or_zero_delay", "fired_tiny_delay", "fired_late_delay",
              "mode_delay", "mode_delayvolume", "mode_ssa", "mode_volume", "dtype_fixed", "dtype_gaussian", "dtype_gamma",
              "delayed_reactant_firings", "still_queued", "deliveries", "dist_models", "fired_continued_run"):
        if stats.get(k, 0) == 0:
            out.append(f"kind {k} never fired in this batch")
    return out


def finish_coverage(cov, stats, cfg):
    c06.finish_coverage(cov, stats, cfg)
