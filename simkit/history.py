"""Engine `history` (DESIGN.md 3.5): seeded API-call histories on a live Model against a shadow description; a twin is
built at once from the shadow whenever a probe is needed. Restart operations (pickle / deepcopy / SBML file) replace the
live object by its restored image - the analogue of crash-and-recover with only durable state surviving."""
import copy
import hashlib
import os
import pickle
import shutil
import tempfile

import numpy as np

from . import netgen, refmodel as rm, seeds, trace as tr

NAMES = ["S0", "S1", "S2", "S3", "S4", "S5"]
# valid identifiers that are spelled like a constant / symbol of some formula dialect (SBML L3 infix: pi, time, inf, avogadro,
# exponentiale, nan - matched case-insensitively there): a species keeps its meaning whatever it is called
AWKWARD_NAMES = ["Pi", "Time", "Avogadro", "ExponentialE", "PI", "TIME"]     # (not Inf / NaN: Python reads those as numbers)
SIM_MODES = ["det", "ssa", "safe", "volume", "delay", "delayvolume"]


# ------------------------------------------------------------------ generation
def safe_reaction(r, model, species):
    """A reaction that keeps the state in the non-negative domain in every simulation mode."""
    kind = r.choice(["massaction", "massaction", "massaction", "hill", "general"])
    if kind == "massaction":
        return netgen.gen_reaction(r, model, species, allow=("massaction",))
    rx = netgen.gen_reaction(r, model, species, allow=(kind,))
    rx["reactants"] = []
    rx["products"] = [p for p in rx["products"] if p != rx["pd"].get("d")][:1]
    if rx["type"] == "general":
        # a producing reaction gets a rate bounded by a constant (at most linear growth); an unbounded rich rate only goes
        # on a reaction that changes nothing (a pure rate probe: it still shows in every traced weight vector)
        if rx["products"] and r.random() < 0.7:
            rx["pd"] = {"rate": bounded_rate(r, species, model.get("params"))}
            rx["rate_bounded"] = True
        else:
            rx["products"] = []
            rx["pd"] = {"rate": rich_rate(r, species, model.get("params"))}
    return rx


def bounded_rate(r, species, params=None):
    """A positive general rate that is bounded by a constant whatever the counts (safe for producing reactions)."""
    s = r.choice(species)
    s2 = r.choice(species)
    terms = [["num", netgen.rate(r, 0.1, 2.0)]]
    pool = [
        # unary minus in front of a power (Gaussian bump): -(x)^2 is -(x^2), whoever parses it
        ["exp", ["/", ["neg", ["^", ["-", ["sp", s], ["num", 3.0]], ["num", 2.0]]], ["num", 8.0]]],
        ["+", ["neg", ["^", ["num", 0.5], ["num", 2.0]]], ["num", 1.0]],
        ["exp", ["*", ["num", -0.1], ["sp", s]]],
        ["heaviside", ["-", ["sp", s], ["num", 2.5]]],
        ["/", ["sp", s], ["+", ["sp", s], ["num", 2.0]]],
        ["min", ["sp", s2], ["num", 5.0]],
        ["/", ["num", 1.0], ["+", ["num", 1.0], ["^", ["/", ["sp", s], ["num", 3.0]], ["num", 2.0]]]],
        ["*", ["num", 0.3], ["vol"]],
        ["abs", ["-", ["min", ["sp", s], ["num", 6.0]], ["num", 3.0]]],
        ["max", ["num", 0.5], ["-", ["num", 2.0], ["sp", s2]]],
        ["log", ["+", ["num", 1.0], ["min", ["sp", s2], ["num", 20.0]]]],
    ]
    if params:
        pool.append(["*", ["par", r.choice(sorted(params))], ["num", 0.1]])
    for _ in range(r.randint(1, 4)):
        terms.append(r.choice(pool))
    return ["+"] + terms


def rich_rate(r, species, params=None):
    """A positive general rate exercising every expression node kind (sum, product, power, exp, log, abs, Heaviside,
    min, max, time, volume, constants, species, parameters)."""
    s = r.choice(species)
    s2 = r.choice(species)
    terms = [["num", netgen.rate(r, 0.1, 2.0)]]
    pool = [
        ["abs", ["-", ["sp", s], ["num", 3.0]]],
        ["max", ["sp", s], ["num", 2.0]],
        ["min", ["sp", s2], ["num", 5.0]],
        # unary minus in front of a power (Gaussian bump): -(x)^2 is -(x^2), whoever parses it
        ["exp", ["/", ["neg", ["^", ["-", ["sp", s], ["num", 3.0]], ["num", 2.0]]], ["num", 8.0]]],
        ["+", ["neg", ["^", ["num", 0.5], ["num", 2.0]]], ["num", 1.0]],
        ["exp", ["*", ["num", -0.1], ["sp", s]]],
        ["log", ["+", ["num", 1.0], ["sp", s2]]],
        ["^", ["+", ["sp", s], ["num", 1.0]], ["num", 0.5]],
        ["heaviside", ["-", ["sp", s], ["num", 2.5]]],
        ["*", ["num", 0.01], ["t"]],
        ["*", ["num", 0.3], ["vol"]],
        ["/", ["sp", s], ["+", ["sp", s2], ["num", 2.0]]],
        ["*", ["num", 0.2], ["sp", s], ["sp", s2]],
    ]
    if params:
        pn = r.choice(sorted(params))
        pool.append(["*", ["par", pn], ["num", 0.1]])
    for _ in range(r.randint(1, 4)):
        terms.append(r.choice(pool))
    return ["+"] + terms


def base_model(r, n_species=None, n_rxn=None, delays=True, rules=True):
    n = n_species or r.randint(1, 3)
    names = list(NAMES)
    if seeds.rng(r.getrandbits(32), "names").random() < 0.15:
        names = list(AWKWARD_NAMES)
    species = names[:n]
    m = {"species": list(species), "init": {s: r.choice([0, 1, 2, 4, 7, 12]) for s in species}, "params": {},
         "reactions": [], "rules": [], "names": names}
    for _ in range(n_rxn if n_rxn is not None else r.randint(1, 3)):
        m["reactions"].append(safe_reaction(r, m, species))
    if delays and r.random() < 0.5:
        netgen.add_delays(r, m, 0.25, 5.0, p=0.6, markers=True)
    if rules and r.random() < 0.4:
        add_species_rule(r, m)
    return m


def idle_species(m):
    """Declared species that no reaction, delayed part or rule touches (they can become a rule target later)."""
    used = set()
    for x in m["reactions"]:
        used |= set(x["reactants"]) | set(x["products"])
        if x.get("delay"):
            used |= set(x["delay"].get("reactants") or []) | set(x["delay"].get("products") or [])
        for k in ("s1", "d"):
            if k in x["pd"]:
                used.add(x["pd"][k])
        if x["type"] == "general":
            used |= rm.expr_names(x["pd"]["rate"])["sp"]
    for ru in m["rules"]:
        used.add(ru["target"])
        used |= set(ru["expr"]) if ru["type"] == "additive" else rm.expr_names(ru["expr"])["sp"]
    return [s for s in m["species"] if s not in used]


def add_species_rule(r, m, allow_ode=False, existing_target=None):
    """A rule assigning a species that is never a reactant/product: a fresh one, or an already declared idle one (then the
    rule is the only edit: nothing else re-arms the model's initialisation). Returns the rule or None."""
    free = [s for s in m.get("names", NAMES) if s not in m["species"]]
    if existing_target is None and not free:
        return None
    tgt = existing_target if existing_target is not None else free[-1]
    src = [s for s in m["species"] if s not in [ru["target"] for ru in m["rules"]] and s != tgt] or m["species"][:1]
    u = r.random()
    if allow_ode and u < 0.25:
        rule = {"type": "ode", "target": tgt, "expr": ["+", ["num", netgen.nice(r.uniform(0.1, 2.0))], ["*", ["num", 0.1], ["sp", r.choice(src)]]],
                "freq": "dt"}
    elif u < 0.5:
        rule = {"type": "additive", "target": tgt, "expr": [r.choice(src) for _ in range(r.randint(1, 2))], "freq": "repeated"}
    else:
        sp_ = r.choice(src)
        expr = ["+", ["*", ["num", netgen.nice(r.uniform(0.5, 3.0))], ["sp", sp_]], ["num", 1.0]]
        if r.random() < 0.4:
            # richer right-hand sides: operators whose spelling / precedence a writer or reader can get wrong
            expr = expr + [r.choice([
                ["exp", ["/", ["neg", ["^", ["-", ["sp", sp_], ["num", 3.0]], ["num", 2.0]]], ["num", 8.0]]],
                ["+", ["neg", ["^", ["num", 0.5], ["num", 2.0]]], ["num", 1.0]],
                ["log", ["+", ["num", 2.0], ["sp", sp_]]],
                ["^", ["+", ["sp", sp_], ["num", 1.0]], ["num", 0.5]],
                ["max", ["sp", sp_], ["num", 2.0]],
                ["abs", ["-", ["sp", sp_], ["num", 3.0]]],
            ])]
        rule = {"type": "assignment", "target": tgt, "expr": expr,
                "freq": r.choice(["repeated", "repeated", "dt", "start", r.choice([0.25, 1.0, 2.5, 0.0, 0])])}
    if existing_target is None:
        m["species"].append(tgt)
        m["init"][tgt] = r.choice([0, 1, 5])
    m["rules"].append(rule)
    return rule


def sim_op(r, shadow, modes=SIM_MODES):
    mode = r.choice(modes)
    npts = r.choice([3, 4, 5, 6, 7, 8, 9])
    lam = max(netgen.initial_lambda(shadow), 0.3)
    horizon = netgen.cap_horizon(shadow, r.choice([3, 15, 60]) / lam, max_events=1500)
    k = max(1, min(64 * 10, int(round(horizon / (npts - 1) * 64))))
    if mode in ("delay", "delayvolume") and not any(x.get("delay") for x in shadow["reactions"]):
        mode = "ssa" if mode == "delay" else "volume"
    return ["simulate", mode, r.choice(["model", "iface"]), r.getrandbits(48) | 1, npts, k / 64.0, netgen.nice(r.uniform(0.3, 4.0), 3)]


def gen_history(r, n_ops, alphabet, param_rule_stratum=False, allow_ode=False, param_rule_freqs=("repeated",)):
    """Generates (base model, op list). The shadow evolution is simulated here so that every op is valid when it runs."""
    for _attempt in range(200):
        shadow = base_model(r)
        if netgen.bounded(shadow):
            break
    if param_rule_stratum:
        # a rule that assigns a parameter feeding a rate (only the 'other parameters unchanged' clause applies)
        ma = [i for i, x in enumerate(shadow["reactions"]) if x["type"] == "massaction"]
        if ma:
            shadow["params"]["kr"] = 1.5
            shadow["reactions"][ma[0]]["pd"] = {"k": "kr"}
            shadow["rules"].append({"type": "assignment", "target": "kr",
                                    "expr": ["/", ["num", 3.0], ["+", ["num", 2.0], ["sp", shadow["species"][0]]]],
                                    "freq": r.choice(list(param_rule_freqs)) if len(param_rule_freqs) > 1 else param_rule_freqs[0]})
    base = copy.deepcopy(shadow)
    ops = []
    for _ in range(n_ops):
        kind = r.choice(alphabet)
        rule_targets = [ru["target"] for ru in shadow["rules"]]
        # marker species (consumed by a delayed part) must not be consumed by anything else, or counts could go negative
        markers = {s_ for x in shadow["reactions"] if x.get("delay") for s_ in (x["delay"].get("reactants") or [])}
        plain_species = [s for s in shadow["species"] if s not in rule_targets and s not in markers]
        if not plain_species:
            continue
        if kind == "add_species":
            free = [s for s in shadow.get("names", NAMES) if s not in shadow["species"]]
            if not free or len(plain_species) >= 5:
                continue
            v = r.choice([0, 1, 3, 9])
            ops.append(["add_species", free[0], v])
            shadow["species"].append(free[0])
            shadow["init"][free[0]] = v
        elif kind == "add_reaction":
            if len(shadow["reactions"]) >= 6:
                continue
            trial = copy.deepcopy(shadow)       # named parameters are committed only if the reaction is accepted
            rx = safe_reaction(r, trial, plain_species)
            trial["reactions"].append(rx)
            if not netgen.bounded(trial):
                continue
            if r.random() < 0.3:
                saved = copy.deepcopy(trial["params"])
                rx0 = copy.deepcopy(rx)
                netgen.add_delays(r, {"species": plain_species, "reactions": [rx], "params": trial["params"]}, 0.25, 5.0,
                                  p=1.0, markers=True, context=trial["reactions"])
                if not netgen.bounded(trial):
                    rx.clear()
                    rx.update(rx0)
                    trial["params"] = saved
            new_params = {k: v for k, v in trial["params"].items() if k not in shadow["params"]}
            ops.append(["add_reaction", copy.deepcopy(rx), new_params])
            shadow["reactions"].append(rx)
            shadow["params"].update(new_params)
        elif kind == "add_reaction_valueless":
            if len(shadow["reactions"]) >= 6 or not plain_species:
                continue
            name = f"kv{len(shadow['params'])}"
            if name in shadow["params"]:
                continue
            s = r.choice(plain_species)
            rx = {"reactants": [s], "products": [], "type": "massaction", "pd": {"k": name}, "delay": None}
            v = netgen.rate(r, 0.1, 3.0)
            ops.append(["add_reaction_valueless", copy.deepcopy(rx), name, v])
            shadow["reactions"].append(rx)
            shadow["params"][name] = v
        elif kind == "create_parameter":
            name = f"q{len(shadow['params'])}"
            if name in shadow["params"]:
                continue
            v = netgen.rate(r)
            ops.append(["create_parameter", name, v])
            shadow["params"][name] = v
        elif kind in ("set_parameter", "set_params"):
            names = [p for p in shadow["params"] if p != "kr"]
            if not names:
                continue
            if kind == "set_parameter":
                p = r.choice(names)
                v = _param_value(r, p)
                ops.append(["set_parameter", p, v])
                shadow["params"][p] = v
            else:
                d = {p: _param_value(r, p) for p in names if r.random() < 0.6}
                if not d:
                    continue
                ops.append(["set_params", d])
                shadow["params"].update(d)
        elif kind == "set_species":
            d = {s: r.choice([0, 1, 2, 5, 8, 15]) for s in plain_species if r.random() < 0.6}
            if not d:
                continue
            ops.append(["set_species", d])
            shadow["init"].update(d)
        elif kind == "create_rule":
            if len(shadow["rules"]) >= 3:
                continue
            idle = [x for x in idle_species(shadow) if x in plain_species]
            tgt0 = r.choice(idle) if idle and r.random() < 0.7 else None
            rule = add_species_rule(r, shadow, allow_ode, existing_target=tgt0)
            if rule is None:
                continue
            ops.append(["create_rule", copy.deepcopy(rule), shadow["init"][rule["target"]]])
        elif kind in ("initialize", "initialize_twice", "restart_deepcopy", "other_model_det"):
            ops.append([kind])
        elif kind == "build_interface":
            ops.append(["build_interface", r.random() < 0.4])
        elif kind == "simulate":
            ops.append(sim_op(r, shadow))
        elif kind == "seed":
            ops.append(["seed", r.getrandbits(48) | 1])
        elif kind == "jacobian":
            ops.append(["jacobian", r.choice(["fourth_order_central_difference", "central_difference",
                                              "forward_difference", "backward_difference"])])
        elif kind == "sensitivity":
            names = sorted(shadow["params"])
            if not names:
                continue
            ops.append(["sensitivity", r.choice(names), r.choice(["fourth_order_central_difference", "central_difference",
                                                                  "forward_difference", "backward_difference"])])
        elif kind == "restart_pickle":
            ops.append(["restart_pickle", r.choice([2, 3, 4, 5]), r.choice(["set_parameter", "set_species", "add_reaction", "none"]),
                        r.choice(["original", "restored"])])
        elif kind == "restart_copy":
            ops.append(["restart_deepcopy", r.choice(["set_parameter", "set_species", "add_reaction", "none"]),
                        r.choice(["original", "restored"])])
        elif kind == "restart_sbml":
            ops.append(["restart_sbml", r.random() < 0.5])
        elif kind == "write_twice":
            ops.append(["write_twice", r.random() < 0.5])
        elif kind == "probe":
            ops.append(["probe", sim_op(r, shadow)])
    ops.append(["probe", sim_op(r, shadow)])
    return base, ops


def _param_value(r, name):
    if name.startswith("n"):
        return r.choice([1, 2, 2.5, 3])
    if name.startswith("K"):
        return netgen.nice(r.uniform(0.5, 10.0))
    if name.startswith(("tau", "mu", "sd", "gth")):
        return netgen.nice(r.uniform(0.01, 3.0))
    if name.startswith("gk"):
        return r.choice([1, 1.5, 2, 3])
    return netgen.rate(r)


# ------------------------------------------------------------------ execution
def is_init(M):
    """The model's 'initialized' flag (not Python-visible as an attribute): element 16 of the Model state tuple."""
    st = M.__getstate__()
    if isinstance(st, tuple) and len(st) > 16 and isinstance(st[16], (bool, int)):
        return bool(st[16])
    # LineageModel: (model state tuple, ...)
    if isinstance(st, tuple) and st and isinstance(st[0], tuple) and len(st[0]) > 16:
        return bool(st[0][16])
    return True


def simulate(M, iface, op, other=None):
    """Runs one simulation op. Returns ('rows', species_order, ndarray) or ('error', type name)."""
    import warnings
    import bioscrape.random as R_
    from bioscrape.simulator import py_simulate_model
    _, mode, via, seed, npts, step, v0 = op
    grid = np.array([i * step for i in range(npts)], dtype=float)
    kw = {"return_dataframe": False}
    if mode == "det":
        kw["stochastic"] = False
    elif mode == "ssa":
        kw["stochastic"] = True
    elif mode == "safe":
        kw["stochastic"] = True
        kw["safe"] = True
    elif mode == "volume":
        kw["stochastic"] = True
        kw["volume"] = v0
    elif mode == "delay":
        kw["stochastic"] = True
        kw["delay"] = True
    elif mode == "delayvolume":
        kw["stochastic"] = True
        kw["delay"] = True
        kw["volume"] = v0
    R_.py_seed_random(seed)
    try:
        with warnings.catch_warnings():
            warnings.simplefilter("ignore")
            if iface is not None:
                res = py_simulate_model(grid, Interface=iface, **kw)
            else:
                res = py_simulate_model(grid, Model=M, **kw)
        rows = np.array(res.py_get_result(), dtype=float)
    except (TypeError, RuntimeError, ValueError) as e:
        return ("error", type(e).__name__ + ":" + str(e)[:60])
    return ("rows", M.get_species_list(), rows)


def compare_runs(a, b, names, det):
    """None if equal, else a detail dict."""
    if a[0] != b[0]:
        return {"what": "one raised, the other returned", "a": str(a[:2])[:200], "b": str(b[:2])[:200]}
    if a[0] == "error":
        return None if a[1].split(":")[0] == b[1].split(":")[0] else {"what": "different errors", "a": a[1], "b": b[1]}
    ra, rb = a[2], b[2]
    if ra.shape[0] != rb.shape[0]:
        return {"what": "row counts differ", "a": list(ra.shape), "b": list(rb.shape)}
    for s in names:
        ca, cb = ra[:, a[1].index(s)], rb[:, b[1].index(s)]
        if det:
            ok = np.allclose(ca, cb, rtol=1e-6, atol=1e-9, equal_nan=True)
        else:
            ok = np.array_equal(ca, cb)
        if not ok:
            k = int(np.argwhere(~np.isclose(ca, cb, rtol=1e-6 if det else 0, atol=1e-9 if det else 0, equal_nan=True))[0][0])
            return {"what": "rows differ", "species": s, "row": k, "a": float(ca[k]), "b": float(cb[k])}
    return None


def named_params(M):
    return {k: float(v) for k, v in M.get_parameter_dictionary().items()}


def dict_check(M, shadow, where, ruled_params=()):
    """Species dictionary and named parameter values of the live model equal the shadow."""
    sd = {k: float(v) for k, v in M.get_species_dictionary().items()}
    want = {s: float(shadow["init"].get(s, 0)) for s in shadow["species"]}
    # species that were never given a value hold -1 until initialisation: compare only after initialisation
    if set(sd) != set(want):
        return {"what": "species sets differ", "where": where, "live": sorted(sd), "shadow": sorted(want)}
    for s in want:
        if sd[s] != want[s] and not (sd[s] == -1.0 and want[s] == 0.0):
            return {"what": "initial condition moved", "where": where, "species": s, "live": sd[s], "shadow": want[s]}
    pd = named_params(M)
    for p, v in shadow["params"].items():
        if p in ruled_params:
            continue
        if p not in pd:
            return {"what": "parameter missing", "where": where, "parameter": p}
        if pd[p] != float(v):
            return {"what": "parameter moved", "where": where, "parameter": p, "live": pd[p], "shadow": float(v)}
    return None


def model_fingerprint(M, names, states, vol=1.7):
    """Observable description of a model, keyed by species name: stoichiometry, rate laws at sampled states, delays, rules."""
    import bioscrape.random as R_
    order = M.get_species_list()
    fp = {}
    ua = np.array(M.py_get_update_array())
    da = np.array(M.py_get_delay_update_array())
    fp["imm"] = {s: ua[order.index(s)].tolist() for s in names}
    fp["del"] = {s: da[order.index(s)].tolist() for s in names}
    pv = np.array(M.get_parameter_values(), dtype=float).copy()
    props = M.get_propensities()
    vals = []
    for st in states:
        x = np.array([float(st[s]) for s in order])
        vals.append([float(p.py_get_propensity(x, pv, 0.0)) for p in props])
        vals.append([float(p.py_get_volume_propensity(x, pv, vol, 0.0)) for p in props])
    fp["rates"] = vals
    dl = []
    R_.py_seed_random(424242)
    x = np.array([float(states[0][s]) for s in order])
    for d in M.get_delays():
        dl.append((type(d).__name__, float(d.py_get_delay(x, pv))))
    fp["delays"] = dl
    return fp


def model_getters(M, exact):
    """What a model reports about itself. exact: object-for-object copies (pickle / deepcopy) also keep every order and index."""
    g = {"has_delays": bool(M.has_delays()), "number_of_species": int(M.get_number_of_species())}
    if exact:
        g["species_list"] = list(M.get_species_list())
        g["param_list"] = list(M.get_param_list())
        g["number_of_params"] = int(M.get_number_of_params())
        g["species2index"] = dict(M.get_species2index())
        g["params2index"] = dict(M.get_params2index())
        g["rules"] = repr(M.get_rules())
        g["reactions"] = [(type(x[0]).__name__, type(x[1]).__name__, dict(x[2]), dict(x[3])) for x in M.get_reactions()]
    return g


def traced_weights(M, names, st, safe=False, vol=None):
    """Stochastic (and stochastic-volume) propensity vector of the real simulator at a state: forced one-firing run."""
    import bioscrape.random as R_
    from bioscrape.simulator import ModelCSimInterface, SafeModelCSimInterface, SSASimulator, VolumeSSASimulator
    from bioscrape.types import Volume
    order = M.get_species_list()
    iface = SafeModelCSimInterface(M) if safe else ModelCSimInterface(M)
    iface.py_set_dt(1.0)
    x = np.array([float(st[s]) for s in order])
    saved = iface.py_get_initial_state().copy()
    iface.py_set_initial_state(x)
    # grid landing at t=0, then a firing after ~1e-12/Lambda; the horizon is tiny so that nothing else happens
    R_.py_verif_script(np.array([0.5, 1.0 - 1e-12, 0.5]))
    R_.py_verif_trace_start(20000, 1)
    grid = np.array([0.0, 1e-6])
    try:
        if vol is None:
            SSASimulator().py_simulate(iface, grid)
        else:
            v = Volume()
            v.py_set_volume(vol)
            VolumeSSASimulator().py_volume_simulate(iface, v, grid)
    finally:
        flat, _ = R_.py_verif_trace_stop()
        R_.py_verif_script(np.zeros(0))
        iface.py_set_initial_state(saved)
    for rec in tr.decode(flat):
        if rec[0] == "D":
            return [float(w) for w in rec[4]]
    return None


class Machine:
    def __init__(self, case, scratch=None):
        self.case = case
        self.shadow = copy.deepcopy(case["base"])
        self.live = rm.to_bioscrape(self.shadow)
        self.iface = None
        self.iface_valid = False
        self.viols = []
        self.stats = {}
        self.log = hashlib.sha256()
        self.scratch = scratch
        self.ruled_params = {ru["target"] for ru in self.shadow["rules"] if ru["target"] in self.shadow["params"]}
        self.sig_ops = []

    def bad(self, cls, sig=None, **detail):
        if len(self.viols) < 6:
            self.viols.append({"class": cls, "signature": sig or {}, "detail": detail})

    def count(self, k, n=1):
        self.stats[k] = self.stats.get(k, 0) + n

    def twin(self):
        return rm.to_bioscrape(self.shadow)

    # -- ops
    def run(self):
        for i, op in enumerate(self.case["ops"]):
            if self.viols:
                break
            self.count("ops")
            self.count("op_" + op[0])
            try:
                getattr(self, "op_" + op[0])(op, i)
            except Exception as e:
                import traceback
                tb = traceback.extract_tb(e.__traceback__)
                last = tb[-1]
                in_library = ("bioscrape" in last.filename or last.filename.endswith(".pyx")) and "/verif/" not in last.filename
                if not in_library:
                    raise            # a harness error: classified as such by the driver
                self.bad("operation_raised", {"op": op[0] if op[0] != "simulate" else "simulate_" + op[1],
                                              "after_restart": any(x.startswith("restart") for x in self.sig_ops)},
                         error=f"{type(e).__name__}: {str(e)[:200]}", where=f"{last.name}")
                break
            self.sig_ops.append(op[0] if op[0] != "simulate" else "simulate_" + op[1])
            if op[0] not in ("probe",) and not self.viols:
                d = dict_check(self.live, self.shadow, f"after op {i} {op[0]}", self.ruled_params)
                if d:
                    self.bad("model_values_changed", {"after": op[0] if op[0] != "simulate" else "simulate_" + op[1]}, **d)
        return self

    def edited(self):
        self.iface_valid = False

    def op_add_species(self, op, i):
        if op[1] in self.shadow["species"]:
            return
        self.live._add_species(op[1])
        self.live.set_species({op[1]: op[2]})
        self.shadow["species"].append(op[1])
        self.shadow["init"][op[1]] = op[2]
        self.edited()

    def op_add_reaction(self, op, i):
        rx = op[1]
        if any(s not in self.shadow["species"] for s in list(rx["reactants"]) + list(rx["products"])):
            return      # (a shrunk history may have lost the species this reaction needs)
        for v, val in op[2].items():
            if v not in self.shadow["params"]:
                self.shadow["params"][v] = val
                self.live.create_parameter(v, val)
        t = rm.reaction_tuple(rx)
        try:
            self.live.create_reaction(*t)
        except ValueError as e:
            if "dummy parameter that already exists" in str(e):
                # a model reloaded from SBML carries the old dummy-parameter names but a reset counter, so a new
                # numeric-parameter reaction clashes. Real, but outside every listed property (noted in DESIGN.md): the
                # op is dropped. The failed call has already declared species/parameters: re-initialise and carry on.
                self.count("dummy_parameter_clash_after_sbml_reload")
                for v in op[2]:
                    pass
                return
            raise
        self.shadow["reactions"].append(copy.deepcopy(rx))
        self.edited()

    def op_add_reaction_valueless(self, op, i):
        rx, name, v = op[1], op[2], op[3]
        if any(s not in self.shadow["species"] for s in rx["reactants"]) or name in self.shadow["params"]:
            return
        self.live.create_reaction(*rm.reaction_tuple(rx))
        try:
            self.live.py_initialize()
            self.bad("initialised_with_valueless_parameter", {}, parameter=name)
        except ValueError:
            self.count("valueless_parameter_rejected")
        self.live.set_parameter(name, v)
        self.shadow["reactions"].append(copy.deepcopy(rx))
        self.shadow["params"][name] = v
        self.edited()

    def op_create_parameter(self, op, i):
        if op[1] in self.shadow["params"]:
            return
        self.live.create_parameter(op[1], op[2])
        self.shadow["params"][op[1]] = op[2]
        self.edited()

    def op_set_parameter(self, op, i):
        if op[1] not in self.shadow["params"]:
            return      # value edits only touch existing parameters (robust against shrinking)
        self.live.set_parameter(op[1], op[2])
        self.shadow["params"][op[1]] = op[2]

    def op_set_params(self, op, i):
        d = {k: v for k, v in op[1].items() if k in self.shadow["params"]}
        if not d:
            return
        self.live.set_params(d)
        self.shadow["params"].update(d)

    def op_set_species(self, op, i):
        d = {k: v for k, v in op[1].items() if k in self.shadow["species"]}
        if not d:
            return
        self.live.set_species(d)
        self.shadow["init"].update(d)

    def op_create_rule(self, op, i):
        rule = op[1]
        srcs = set(rule["expr"]) if rule["type"] == "additive" else rm.expr_names(rule["expr"])["sp"]
        if any(s not in self.shadow["species"] for s in srcs):
            return
        exists = rule["target"] in self.shadow["species"]
        if exists and rule["target"] not in idle_species(self.shadow):
            return      # (a shrunk history may have turned the target into a reactant / another rule's target)
        if not exists:
            self.live._add_species(rule["target"])
            self.live.set_species({rule["target"]: op[2]})
        t = rm.rule_tuple(rule)
        self.live.create_rule(t[0], dict(t[1]), t[2])
        if exists:
            self.count("rule_on_existing_species")
        else:
            self.shadow["species"].append(rule["target"])
            self.shadow["init"][rule["target"]] = op[2]
        self.shadow["rules"].append(copy.deepcopy(rule))
        self.edited()

    def op_initialize(self, op, i):
        self.live.py_initialize()

    def op_initialize_twice(self, op, i):
        self.live.py_initialize()
        self.live.py_initialize()

    def op_build_interface(self, op, i):
        from bioscrape.simulator import ModelCSimInterface, SafeModelCSimInterface
        self.iface = SafeModelCSimInterface(self.live) if op[1] else ModelCSimInterface(self.live)
        self.iface_safe = op[1]
        self.iface_valid = True

    def _iface_for(self, op):
        """An interface built since the last definition edit, matching the safe flag of the mode (else None)."""
        if op[2] != "iface" or self.iface is None:
            return None
        if not self.iface_valid:
            return "stale"
        if (op[1] == "safe") != bool(self.iface_safe):
            return None
        return self.iface

    def op_simulate(self, op, i):
        ifc = self._iface_for(op)
        if ifc == "stale":
            # an interface built before a definition edit must refuse to simulate as long as the model was not
            # re-initialised (that is the form in which the code promises the check)
            if not is_init(self.live):
                out = simulate(self.live, self.iface, op)
                if out[0] != "error":
                    self.bad("stale_interface_simulated", {"mode": op[1]})
                else:
                    self.count("stale_interface_rejected")
            ifc = None
        out = simulate(self.live, ifc, op)
        self.count("simulations")
        self.count("sim_" + op[1])
        if ifc is not None:
            self.count("sim_via_interface")
        self.log.update(repr(out[0]).encode() + (out[2].tobytes() if out[0] == "rows" else out[1].encode()))

    def op_seed(self, op, i):
        import bioscrape.random as R_
        R_.py_seed_random(op[1])

    def op_other_model_det(self, op, i):
        from bioscrape.types import Model
        from bioscrape.simulator import py_simulate_model
        O = Model(species=["U", "W"], reactions=[(["U"], ["W"], "massaction", {"k": 0.7}), (["W"], [], "massaction", {"k": 0.2})],
                  initial_condition_dict={"U": 5.0, "W": 1.0})
        py_simulate_model(np.linspace(0, 2, 5), Model=O, stochastic=False, return_dataframe=False)

    def op_jacobian(self, op, i):
        from bioscrape.analysis import py_get_jacobian
        x = [float(self.shadow["init"].get(s, 0)) + 1.0 for s in self.live.get_species_list()]
        try:
            py_get_jacobian(self.live, x, method=op[1])
        except (TypeError, RuntimeError):
            pass
        self.iface_valid = self.iface_valid and is_init(self.live)

    def op_sensitivity(self, op, i):
        from bioscrape.analysis import py_get_sensitivity_to_parameter
        x = [float(self.shadow["init"].get(s, 0)) + 1.0 for s in self.live.get_species_list()]
        if op[1] not in self.shadow["params"]:
            return
        try:
            py_get_sensitivity_to_parameter(self.live, x, op[1], method=op[2])
        except (TypeError, RuntimeError):
            pass

    # -- probes
    def op_probe(self, op, i):
        sop = op[1]
        names = list(self.shadow["species"])
        det = sop[1] == "det"
        T = self.twin()
        a = simulate(self.live, None, sop)
        b = simulate(T, None, sop)
        self.count("probes")
        self.count("probe_" + sop[1])
        d = compare_runs(a, b, names, det)
        if d and not self.ruled_params:
            self.bad("history_dependent_output", {"mode": sop[1], "last_ops": self.sig_ops[-3:]}, **d)
            return
        # the same probe twice on the live model
        a2 = simulate(self.live, None, sop)
        d = compare_runs(a, a2, names, det)
        if d and not self.ruled_params:
            self.bad("not_repeatable", {"mode": sop[1]}, **d)
            return
        if self.iface is not None and self.iface_valid and (sop[1] == "safe") == bool(self.iface_safe):
            a3 = simulate(self.live, self.iface, sop)
            d = compare_runs(a, a3, names, det)
            if d and not self.ruled_params:
                self.bad("interface_and_model_disagree", {"mode": sop[1]}, **d)
                return
        d = dict_check(self.live, self.shadow, "after probe", self.ruled_params)
        if d:
            self.bad("model_values_changed", {"after": "simulate_" + sop[1]}, **d)
        d = dict_check(T, self.shadow, "twin after probe", self.ruled_params)
        if d:
            self.bad("model_values_changed", {"after": "simulate_" + sop[1], "object": "fresh"}, **d)
        self.log.update(repr(a[0]).encode() + (a[2].tobytes() if a[0] == "rows" else a[1].encode()))

    # -- restarts
    def sample_states(self):
        r = seeds.rng(self.case.get("pseed", 1), "states", len(self.sig_ops))
        out = []
        for _ in range(6):
            out.append({s: float(r.choice([0, 1, 2, 3, 5, 8, 13, 21])) for s in self.shadow["species"]})
        return out

    def compare_models(self, A, B, cls, sig, stochastic_forms=True, seeded=True, params_by_name=True):
        """Behavioural comparison of two models over the shadow's species names. True if equal."""
        names = list(self.shadow["species"])
        states = self.sample_states()
        for X in (A, B):
            if not is_init(X):
                X.py_initialize()
        da = {k: float(v) for k, v in A.get_species_dictionary().items()}
        db = {k: float(v) for k, v in B.get_species_dictionary().items()}
        if da != db:
            self.bad(cls, sig, what="species / initial values differ", a=da, b=db)
            return False
        pa, pb = named_params(A), named_params(B)
        for p in self.shadow["params"]:
            # (rule-assigned parameters included: whatever value the first model holds right now, the second holds too)
            same_ = pa.get(p) == pb.get(p) or (pa.get(p) != pa.get(p) and pb.get(p) != pb.get(p))
            if not same_ and p in self.ruled_params and pa.get(p) is not None and pb.get(p) is not None:
                same_ = rm.close(pa[p], pb[p], 1e-13)      # a computed value written as decimal text may lose its last digit
            if not same_:
                self.bad(cls, sig, what="parameter value differs", parameter=p, a=pa.get(p), b=pb.get(p))
                return False
        fa = model_fingerprint(A, names, states)
        try:
            fb = model_fingerprint(B, names, states)
        except Exception as e:      # the second model's own observables are inconsistent (e.g. stale matrices of another shape)
            self.bad(cls, sig, what="the second model cannot be inspected like the first", error=f"{type(e).__name__}: {str(e)[:200]}")
            return False
        for key in ("imm", "del"):
            if fa[key] != fb[key]:
                self.bad(cls, sig, what=f"{key} stoichiometry differs", a=fa[key], b=fb[key])
                return False
        # what the model says about itself through its public getters
        try:
            ga, gb = model_getters(A, sig.get("restart") in ("pickle", "deepcopy")), model_getters(B, sig.get("restart") in ("pickle", "deepcopy"))
        except Exception as e:
            self.bad(cls, sig, what="a public getter raised", error=f"{type(e).__name__}: {str(e)[:200]}")
            return False
        for key in ga:
            if ga[key] != gb[key]:
                self.bad(cls, sig, what=f"getter {key} differs", a=repr(ga[key])[:300], b=repr(gb[key])[:300])
                return False
        ra, rb = np.array(fa["rates"]), np.array(fb["rates"])
        if ra.shape != rb.shape or not np.allclose(ra, rb, rtol=1e-12, atol=0, equal_nan=True):
            self.bad(cls, sig, what="rate laws differ at a sampled state", a=ra.tolist()[:2], b=rb.tolist()[:2])
            return False
        if fa["delays"] != fb["delays"]:
            self.bad(cls, sig, what="delay types / draws under a common seed differ", a=fa["delays"], b=fb["delays"])
            return False
        self.count("fingerprints_compared")
        if stochastic_forms and A.get_propensities():
            for st in states[:3]:
                for (safe, vol) in ((False, None), (True, None), (False, 1.7)):
                    wa = traced_weights(A, names, st, safe, vol)
                    wb = traced_weights(B, names, st, safe, vol)
                    if (wa is None) != (wb is None) or (wa is not None and not np.allclose(wa, wb, rtol=1e-12, atol=0)):
                        self.bad(cls, sig, what="stochastic rate forms differ", state=st, safe=safe, volume=vol, a=wa, b=wb)
                        return False
            self.count("stochastic_forms_compared")
        # rules: reference application reproduced on sampled states by both
        for X, nm in ((A, "a"), (B, "b")):
            pass
        if seeded:
            r = seeds.rng(self.case.get("pseed", 1), "cmp", len(self.sig_ops))
            for mode in r.sample(SIM_MODES, 3):
                sop = sim_op(r, self.shadow, [mode])
                a = simulate(A, None, sop)
                b = simulate(B, None, sop)
                d = compare_runs(a, b, names, sop[1] == "det")
                self.count("restart_seeded_comparisons")
                if d:
                    self.bad(cls, dict(sig, mode=sop[1]), **d)
                    return False
        return True

    def independence(self, edited, other, how, cls, sig):
        """Edit one of the two objects and check the other did not move. Returns the shadow delta to apply (or None)."""
        r = seeds.rng(self.case.get("pseed", 1), "indep", len(self.sig_ops))
        names = list(self.shadow["species"])
        before_s = {k: float(v) for k, v in other.get_species_dictionary().items()}
        before_p = named_params(other)
        before_u = np.array(other.py_get_update_array()).copy()
        sop = sim_op(r, self.shadow, ["ssa"])
        before_run = simulate(other, None, sop)
        delta = None
        markers = {s_ for x in self.shadow["reactions"] if x.get("delay") for s_ in (x["delay"].get("reactants") or [])}
        plain = [s for s in names if s not in [ru["target"] for ru in self.shadow["rules"]] and s not in markers]
        if how == "set_parameter" and [p for p in self.shadow["params"] if p not in self.ruled_params]:
            p = sorted(p for p in self.shadow["params"] if p not in self.ruled_params)[0]
            v = float(self.shadow["params"][p]) * 1.5 + 0.25
            edited.set_parameter(p, v)
            delta = ("param", p, v)
        elif how == "set_species" and plain:
            s = plain[0]
            v = float(self.shadow["init"].get(s, 0)) + 3
            edited.set_species({s: v})
            delta = ("species", s, v)
        elif how == "add_reaction" and plain:
            # (a producing reaction: a consuming one could drive a marker species of a LATER generated delayed reaction
            # negative - out of domain, where bioscrape may not terminate or crash)
            rx = {"reactants": [], "products": [plain[0]], "type": "massaction", "pd": {"k": 0.37}, "delay": None}
            edited.create_reaction(*rm.reaction_tuple(rx))
            edited.py_initialize()
            delta = ("reaction", rx)
        else:
            return None
        self.count("independence_checks")
        after_s = {k: float(v) for k, v in other.get_species_dictionary().items()}
        after_p = named_params(other)
        def _same(a, b):
            return set(a) == set(b) and all((a[k] == b[k]) or (a[k] != a[k] and b[k] != b[k]) for k in a)
        # (a rule-assigned parameter is moved by the harness's own simulations of the other object, not by the edit)
        bp = {k: v for k, v in before_p.items() if k not in self.ruled_params}
        ap = {k: v for k, v in after_p.items() if k not in self.ruled_params}
        if not _same(before_s, after_s) or not _same(bp, ap):
            self.bad(cls, dict(sig, independence=how), what="editing one object changed the other's values",
                     before=[before_s, before_p], after=[after_s, after_p])
            return delta
        if not np.array_equal(before_u, np.array(other.py_get_update_array())):
            self.bad(cls, dict(sig, independence=how), what="editing one object changed the other's stoichiometry")
            return delta
        after_run = simulate(other, None, sop)
        d = compare_runs(before_run, after_run, names, False)
        if d and not self.ruled_params:     # (with a rule-assigned parameter the first of the two runs itself moves the model)
            self.bad(cls, dict(sig, independence=how), what2="editing one object changed the other's seeded output", **d)
        return delta

    def _apply_delta(self, delta):
        if delta is None:
            return
        if delta[0] == "param":
            self.shadow["params"][delta[1]] = delta[2]
        elif delta[0] == "species":
            self.shadow["init"][delta[1]] = delta[2]
        elif delta[0] == "reaction":
            self.shadow["reactions"].append(copy.deepcopy(delta[1]))

    def _restart(self, restored, how, edit, which, sig):
        original = self.live
        cls = "restored_model_differs"
        if not self.compare_models(original, restored, cls, sig):
            return
        self.count("restarts")
        if edit != "none":
            if which == "restored":
                delta = self.independence(restored, original, edit, "copy_not_independent", sig)
                # history continues on the restored (edited) object
                self._apply_delta(delta)
            else:
                self.independence(original, restored, edit, "copy_not_independent", sig)
                # the original is dropped with its edit; the restored one is unchanged
        self.live = restored
        self.iface = None
        self.iface_valid = False

    def op_restart_pickle(self, op, i):
        sig = {"restart": "pickle"}
        try:
            restored = pickle.loads(pickle.dumps(self.live, protocol=op[1]))
        except Exception as e:
            self.bad("restart_failed", sig, error=f"{type(e).__name__}: {str(e)[:200]}")
            return
        self._restart(restored, "pickle", op[2], op[3], sig)

    def op_restart_deepcopy(self, op, i):
        sig = {"restart": "deepcopy"}
        try:
            restored = copy.deepcopy(self.live)
        except Exception as e:
            self.bad("restart_failed", sig, error=f"{type(e).__name__}: {str(e)[:200]}")
            return
        edit = op[1] if len(op) > 1 else "none"
        which = op[2] if len(op) > 2 else "restored"
        self._restart(restored, "deepcopy", edit, which, sig)

    # -- SBML restarts (C12)
    def _scratch(self):
        if self.scratch is None:
            root = os.environ.get("VERIF_SCRATCH", "/var/tmp/bioscrape-verif-scratch")
            os.makedirs(root, exist_ok=True)
            self.scratch = tempfile.mkdtemp(prefix="h", dir=root)
            self._own_scratch = True
        return self.scratch

    def cleanup(self):
        if getattr(self, "_own_scratch", False) and self.scratch:
            shutil.rmtree(self.scratch, ignore_errors=True)

    def rule_behaviour(self, M, names, states):
        """Result of applying the model's rules through its interface at sampled (state, time, rule_step) points."""
        from bioscrape.simulator import ModelCSimInterface
        order = M.get_species_list()
        ifc = ModelCSimInterface(M)
        ifc.py_set_dt(0.25)
        out = []
        pv0 = np.array(M.get_parameter_values(), dtype=float).copy()
        times = [0.0, 0.25, 1.0, 3.0] + [float(ru["freq"]) for ru in self.shadow["rules"]
                                        if isinstance(ru.get("freq"), (int, float))]
        for st in states[:3]:
            for t in times:
                for step in (True, False):
                    x = np.array([float(st[s]) for s in order])
                    ifc.py_apply_repeated_rules(x, t, step)
                    out.append([float(x[order.index(s)]) for s in names])
                    # rules may write parameters: restore them so that the probe itself leaves no trace
                    M.get_parameter_values()[:] = pv0
        return out

    def op_restart_sbml(self, op, i):
        from bioscrape.types import Model
        sig = {"restart": "sbml", "stochastic_export": bool(op[1])}
        path = os.path.join(self._scratch(), f"m{i}.xml")
        original = self.live
        try:
            if not is_init(original):
                original.py_initialize()
            original.write_sbml_model(path, stochastic_model=bool(op[1]))
            restored = Model(sbml_filename=path)
        except Exception as e:
            self.bad("sbml_roundtrip_failed", sig, error=f"{type(e).__name__}: {str(e)[:300]}")
            return
        if sorted(restored.get_species_list()) != sorted(original.get_species_list()):
            self.bad("sbml_roundtrip_differs", sig, what="species sets differ", a=sorted(original.get_species_list()),
                     b=sorted(restored.get_species_list()))
            return
        if not self.compare_models(original, restored, "sbml_roundtrip_differs", sig):
            return
        names = list(self.shadow["species"])
        states = self.sample_states()
        ra = self.rule_behaviour(original, names, states)
        rb = self.rule_behaviour(restored, names, states)
        if not np.allclose(np.array(ra), np.array(rb), rtol=1e-12, atol=0):
            k = int(np.argwhere(~np.isclose(np.array(ra), np.array(rb), rtol=1e-12, atol=0))[0][0])
            self.bad("sbml_roundtrip_differs", sig, what="rules or their firing frequency differ", sample=k, a=ra[k], b=rb[k],
                     rules=[(ru["type"], str(ru.get("freq"))) for ru in self.shadow["rules"]])
            return
        fa = [(r_[0], str(r_[2])) for r_ in original.get_rules()]
        fb = [(r_[0], str(r_[2])) for r_ in restored.get_rules()]
        self.count("sbml_restarts")
        self.count("sbml_stochastic_export" if op[1] else "sbml_deterministic_export")
        self.live = restored
        self.shadow["species"] = [s for s in restored.get_species_list()]
        self.iface = None
        self.iface_valid = False

    def op_write_twice(self, op, i):
        import re
        path1 = os.path.join(self._scratch(), f"w{i}a.xml")
        path2 = os.path.join(self._scratch(), f"w{i}b.xml")
        try:
            if not is_init(self.live):
                self.live.py_initialize()
            self.live.write_sbml_model(path1, stochastic_model=bool(op[1]))
            r = seeds.rng(self.case.get("pseed", 1), "w2", i)
            if not self.ruled_params:       # (a simulation moves a rule-assigned parameter: then the model did change)
                simulate(self.live, None, sim_op(r, self.shadow))
            self.live.write_sbml_model(path2, stochastic_model=bool(op[1]))
        except Exception as e:
            self.bad("sbml_write_failed", {"stochastic_export": bool(op[1])}, error=f"{type(e).__name__}: {str(e)[:300]}")
            return
        a = re.sub(r"bioscrape_generated_model_\d+", "ID", open(path1).read())
        b = re.sub(r"bioscrape_generated_model_\d+", "ID", open(path2).read())
        self.count("write_twice")
        if a != b:
            la, lb = a.splitlines(), b.splitlines()
            k = next((j for j in range(min(len(la), len(lb))) if la[j] != lb[j]), min(len(la), len(lb)))
            self.bad("sbml_documents_differ_between_writes", {"stochastic_export": bool(op[1])},
                     line=k, a=la[k][:200] if k < len(la) else None, b=lb[k][:200] if k < len(lb) else None)
