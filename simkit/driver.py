"""Generic check driver: seeded case generation -> pooled execution -> oracle verdicts -> shrink -> replay -> evidence.

A check module provides:
  PROPERTY, TITLE, RULE (str), ASSUMPTIONS (list), COMPONENTS (dict real/stub)
  TIERS = {'quick': {...}, 'thorough': {...}}  with keys cases, block, case_timeout (s), and free extras
  gen_case(case_seed:int, cfg:dict) -> dict (JSON-able, self-contained: replay needs nothing else)
  run_case(case:dict) -> dict with keys
        violations: list of {class:str, signature:dict, detail:dict}
        stats: dict counter->int   (summed)
        sig: hashable/str  event signature (distinct counting) or None
        nontrivial: bool
        digest: str  (determinism digest of the full event log)
        sim_time: float (simulated model time covered), optional
  shrink(case) -> iterable of simpler cases (optional)
  sample(case, result) -> small JSON-able description for evidence (optional)
  extra_phases(ctx) -> optional: additional batch-level work (e.g. distribution oracle); returns dict(stats, violations, coverage)
"""
import hashlib
import importlib
import json
import os
import sys
import time

from . import runner, seeds

VERIF = os.path.dirname(os.path.dirname(os.path.abspath(__file__)))
KNOWN_PATH = os.path.join(VERIF, "known_findings.json")
DEFAULT_SEED = {"quick": 20260926, "thorough": 20260927}
MAX_SIGS = 3_000_000


def jdump(o):
    return json.dumps(o, sort_keys=True, separators=(",", ":"), default=_jdefault)


def _jdefault(o):
    try:
        import numpy as np
        if isinstance(o, np.ndarray):
            return o.tolist()
        if isinstance(o, (np.floating,)):
            return float(o)
        if isinstance(o, (np.integer,)):
            return int(o)
        if isinstance(o, np.bool_):
            return bool(o)
    except ImportError:
        pass
    if isinstance(o, (set, frozenset)):
        return sorted(o)
    return repr(o)


def h64(s):
    if not isinstance(s, (bytes, bytearray)):
        s = str(s).encode()
    return int.from_bytes(hashlib.sha256(s).digest()[:8], "big")


def load_known():
    if not os.path.exists(KNOWN_PATH):
        return []
    with open(KNOWN_PATH) as f:
        return json.load(f).get("findings", [])


def match_known(prop, violation, known):
    sig = dict(violation.get("signature", {}))
    sig["class"] = violation["class"]
    for k in known:
        if k.get("property") != prop or k.get("status") != "known":
            continue
        m = k.get("match", {})
        if all(sig.get(key) == val for key, val in m.items()):
            return k
    return None


def vkey(v):
    return v["class"] + "|" + jdump(v.get("signature", {}))


class Block:
    """Executed inside a worker: runs `count` cases starting at `start`."""

    def __init__(self, mod, seed, cfg):
        self.mod = mod
        self.seed = seed
        self.cfg = cfg

    def case_for(self, idx):
        cs = seeds.derive(self.seed, self.mod.PROPERTY, idx)
        case = self.mod.gen_case(cs, self.cfg)
        case["_case_seed"] = cs
        case["_index"] = idx
        return case

    def run_block(self, b):
        block = self.cfg["block"]
        start = b * block
        end = min(self.cfg["cases"], start + block)
        stats = {}
        sigs = set()
        nontrivial = 0
        viols = []
        samples = []
        h = hashlib.sha256()
        sim_time = 0.0
        t0 = time.time()
        for idx in range(start, end):
            case = self.case_for(idx)
            res = guarded_run_case(self.mod, case)
            for k, v in res.get("stats", {}).items():
                stats[k] = stats.get(k, 0) + v
            if res.get("nontrivial"):
                nontrivial += 1
                s = res.get("sig")
                if s is not None:
                    sigs.add(h64(s))
            h.update(res.get("digest", "").encode())
            sim_time += res.get("sim_time", 0.0)
            for v in res.get("violations", []):
                if len(viols) < 20:
                    viols.append({"index": idx, "case": case, "violation": v})
                stats["violations_raw"] = stats.get("violations_raw", 0) + 1
            if idx - start < 2 and b < 2 and hasattr(self.mod, "sample"):
                samples.append(self.mod.sample(case, res))
        return {"stats": stats, "sigs": sigs, "nontrivial": nontrivial, "violations": viols,
                "digest": h.hexdigest(), "n": end - start, "samples": samples, "sim_time": sim_time,
                "wall": time.time() - t0}

    def run_single(self, idx):
        case = self.case_for(idx)
        return {"case": case, "res": guarded_run_case(self.mod, case)}


def _library_frame(tb):
    """Deepest traceback frame if it lies inside the library under test (compiled .pyx or its Python modules), else None."""
    import traceback as _tb
    frames = _tb.extract_tb(tb)
    if not frames:
        return None
    f = frames[-1]
    fn = f.filename.replace("\\", "/")
    if fn.endswith(".pyx") or "/bioscrape/" in fn or fn.startswith("bioscrape/") or fn.startswith("lineage/"):
        return f"{os.path.basename(fn)}:{f.name}"
    return None


def guarded_run_case(mod, case):
    """run_case, except that an exception raised *by the library* at a place where the check did not expect one (the
    deepest frame is library code) is a verdict about the library, not about the harness: it becomes a violation of class
    library_raised (replayable like any other). Exceptions from harness code still propagate (HARNESS-ERROR)."""
    try:
        return mod.run_case(case)
    except Exception as e:
        where = _library_frame(e.__traceback__)
        if where is None:
            raise
        sig = dict(_crash_signature(mod, case) or {}, where=where, error=type(e).__name__)
        return {"violations": [{"class": "library_raised", "signature": sig,
                                "detail": {"error": f"{type(e).__name__}: {str(e)[:300]}"}}],
                "stats": {"library_raised": 1}, "sig": None, "nontrivial": False,
                "digest": "library_raised:" + where, "sim_time": 0.0}


def _guarded(mod):
    return lambda case: guarded_run_case(mod, case)


def _run_case_isolated(mod, case, timeout):
    o = runner.call_isolated(_guarded(mod), case, timeout=timeout)
    if o.status == "ok":
        return o.value.get("violations", []), o
    if o.status in ("crash", "hang"):
        return [{"class": o.status, "signature": _crash_signature(mod, case), "detail": {"what": o.detail}}], o
    return None, o  # harness error


def _crash_signature(mod, case):
    if hasattr(mod, "crash_signature"):
        try:
            return mod.crash_signature(case)
        except Exception:
            return {}
    return {}


def _shrink_inproc(mod, case, vclass, budget_s):
    t0 = time.time()
    cur = case
    improved = True
    steps = 0
    while improved and time.time() - t0 < budget_s:
        improved = False
        for cand in mod.shrink(cur):
            if time.time() - t0 > budget_s:
                break
            try:
                viols = guarded_run_case(mod, cand).get("violations", [])
            except Exception:
                continue
            if any(v["class"] == vclass for v in viols):
                cur = cand
                improved = True
                steps += 1
                break
    return cur, steps


def shrink_case(mod, case, vclass, budget_s=90.0, timeout=30.0, log=None):
    """Greedy shrinking while a violation of the same class persists."""
    if not hasattr(mod, "shrink"):
        return case
    t0 = time.time()
    if vclass not in ("crash", "hang"):
        # the whole loop runs in one forked child (a candidate may still crash: then fall back to per-candidate isolation)
        o = runner.call_isolated(_shrink_inproc, mod, case, vclass, budget_s, timeout=budget_s + 60)
        if o.status == "ok":
            cur, steps = o.value
            if log:
                log(f"[shrink] {steps} accepted steps in {time.time() - t0:.1f}s")
            return cur
    cur = case
    improved = True
    steps = 0
    while improved and time.time() - t0 < budget_s:
        improved = False
        for cand in mod.shrink(cur):
            if time.time() - t0 > budget_s:
                break
            viols, o = _run_case_isolated(mod, cand, timeout)
            if viols is None:
                continue
            if any(v["class"] == vclass for v in viols):
                cur = cand
                improved = True
                steps += 1
                break
    if log:
        log(f"[shrink] {steps} accepted steps in {time.time() - t0:.1f}s")
    return cur


def write_replay(prop, seed, n, case, violation, engine_hash):
    os.makedirs(os.path.join(VERIF, "replays"), exist_ok=True)
    path = os.path.join(VERIF, "replays", f"{prop}-{seed}-{n}.json")
    with open(path, "w") as f:
        json.dump({"property": prop, "verif_seed": seed, "source_hash": engine_hash, "case": case,
                   "violation": violation}, f, indent=1, sort_keys=True, default=_jdefault)
    return path


def write_evidence(prop, tier, seed, level, coverage, assumptions, wall, violations):
    # sensitivity runs against a scratch tree (mutants/*.sh set VERIF_EVIDENCE_DIR) must not overwrite /repo's evidence
    evdir = os.environ.get("VERIF_EVIDENCE_DIR") or os.path.join(VERIF, "evidence")
    os.makedirs(evdir, exist_ok=True)
    path = os.path.join(evdir, f"{prop}.json")
    ev = {"property_id": prop, "tier": tier, "seed": int(seed), "level": level, "coverage": coverage,
          "assumptions": assumptions, "wall_s": round(wall, 2), "violations": int(violations)}
    tmp = path + ".tmp"
    with open(tmp, "w") as f:
        json.dump(ev, f, indent=1, sort_keys=True, default=_jdefault)
    os.replace(tmp, path)
    return path


def main_check(modname, tier, replay=None, seed=None, cases=None, selftest=False):
    from . import build
    t_start = time.time()
    dest = build.activate()
    engine_hash = os.path.basename(dest)
    mod = importlib.import_module(modname)
    prop = mod.PROPERTY
    log = lambda s: print(s, file=sys.stderr, flush=True)

    if replay:
        return do_replay(mod, replay)

    if seed is None:
        seed = int(os.environ.get("VERIF_SEED", DEFAULT_SEED[tier]))
    cfg = dict(mod.TIERS[tier])
    if cases:
        cfg["cases"] = cases
    cfg.setdefault("block", 100)
    cfg.setdefault("case_timeout", 20.0)
    cfg["tier"] = tier
    print(f"VERIF_SEED={seed} property={prop} tier={tier} cases={cfg['cases']} source={engine_hash}", flush=True)

    blk = Block(mod, seed, cfg)
    nblocks = (cfg["cases"] + cfg["block"] - 1) // cfg["block"]
    block_timeout = cfg["case_timeout"] * 2 + cfg["block"] * cfg.get("per_case_budget", 0.1)
    deadline = cfg.get("wall_budget")
    jobs = int(os.environ.get("VERIF_JOBS", "0")) or min(16, os.cpu_count() or 1)

    outcomes = runner.run_indexed(blk.run_block, nblocks, jobs=jobs, case_timeout=block_timeout, confirm=False)

    stats = {}
    sigs = set()
    nontrivial = 0
    evaluations = 0
    raw_viol = []
    samples = []
    sim_time = 0.0
    harness_errors = []
    harness_warnings = []
    block_digests = {}
    for o in outcomes:
        if o.status == "ok":
            r = o.value
            for k, v in r["stats"].items():
                stats[k] = stats.get(k, 0) + v
            if len(sigs) < MAX_SIGS:
                sigs |= r["sigs"]
            nontrivial += r["nontrivial"]
            evaluations += r["n"]
            raw_viol.extend(r["violations"])
            samples.extend(r["samples"])
            sim_time += r["sim_time"]
            block_digests[o.index] = r["digest"]
            if o.detail:
                harness_warnings.append(f"block {o.index}: {o.detail}")
        elif o.status == "error":
            harness_errors.append(f"block {o.index}: {o.detail}")
        else:
            # crash or hang inside a block: locate the case by isolated re-runs
            located_so_far = sum(1 for rv in raw_viol if rv["violation"]["class"] in ("crash", "hang"))
            if located_so_far >= 3:
                # the check already fails with three attributed crashes / hangs: do not spend the caps on every further block
                stats["blocks_" + o.status + "_not_examined"] = stats.get("blocks_" + o.status + "_not_examined", 0) + 1
                continue
            log(f"[runner] block {o.index} {o.status}: {o.detail}; locating the case")
            start = o.index * cfg["block"]
            end = min(cfg["cases"], start + cfg["block"])
            located = False
            sub = runner.run_indexed(blk.run_single, cfg["cases"], jobs=jobs, case_timeout=cfg["case_timeout"],
                                     indices=list(range(start, end)))
            for oo in sub:
                idx = oo.index
                evaluations += 1
                if oo.status in ("crash", "hang"):
                    case = blk.case_for(idx)
                    raw_viol.append({"index": idx, "case": case,
                                     "violation": {"class": oo.status, "signature": _crash_signature(mod, case),
                                                   "detail": {"what": oo.detail}}})
                    stats["crashes_attributed"] = stats.get("crashes_attributed", 0) + 1
                    located = True
                elif oo.status == "ok":
                    res = oo.value["res"]
                    for k, v in res.get("stats", {}).items():
                        stats[k] = stats.get(k, 0) + v
                    if res.get("nontrivial"):
                        nontrivial += 1
                        if res.get("sig") is not None:
                            sigs.add(h64(res["sig"]))
                    sim_time += res.get("sim_time", 0.0)
                    for v in res.get("violations", []):
                        raw_viol.append({"index": idx, "case": oo.value["case"], "violation": v})
                else:
                    harness_errors.append(f"case {idx}: {oo.detail}")
            if not located:
                harness_warnings.append(f"block {o.index} {o.status} not reproduced case by case ({o.detail})")

    # determinism self-check (reduced form): re-run a few blocks in fresh workers, digests must agree
    recheck = [b for b in sorted(block_digests)[: cfg.get("recheck_blocks", 2)]]
    if selftest:
        recheck = sorted(block_digests)
    if recheck:
        again = runner.run_indexed(blk.run_block, nblocks, jobs=max(1, jobs // 2 if selftest else 2),
                                   case_timeout=block_timeout, indices=recheck)
        for o in again:
            if o.status == "ok" and o.value["digest"] != block_digests[o.index]:
                harness_errors.append(f"non-deterministic block {o.index}: digest differs between two executions")
        stats["determinism_blocks_rechecked"] = len(recheck)

    # extra phases (distribution oracles etc.)
    extra_cov = {}
    if hasattr(mod, "extra_phases"):
        ex = mod.extra_phases({"seed": seed, "cfg": cfg, "jobs": jobs, "log": log, "tier": tier})
        for k, v in ex.get("stats", {}).items():
            stats[k] = stats.get(k, 0) + v
        raw_viol.extend(ex.get("violations", []))
        extra_cov = ex.get("coverage", {})
        evaluations += ex.get("evaluations", 0)
        nontrivial += ex.get("nontrivial", 0)
        sim_time += ex.get("sim_time", 0.0)
        for s in ex.get("sigs", []):
            sigs.add(h64(s))
        harness_errors.extend(ex.get("harness_errors", []))

    # violations: dedupe, shrink, replay, known findings
    known = load_known()
    groups = {}
    for rv in raw_viol:
        groups.setdefault(vkey(rv["violation"]), []).append(rv)
    exit_code = 0
    n_new = 0
    known_hit = {}
    lines = []
    nrep = 0
    for key in sorted(groups):
        rv = sorted(groups[key], key=lambda r: r["index"])[0]
        v = rv["violation"]
        k = match_known(prop, v, known)
        if k is not None:
            known_hit[k["id"]] = known_hit.get(k["id"], 0) + len(groups[key])
            continue
        # unknown: shrink and report (at most 5 distinct replays per run)
        if nrep >= 5:
            n_new += 1
            log(f"[violation-group] class={v['class']} signature={jdump(v.get('signature', {}))} "
                f"detail={jdump(v.get('detail', {}))[:300]} (x{len(groups[key])} raw, not minimised: replay limit)")
            continue
        case = rv["case"]
        small = shrink_case(mod, case, v["class"], budget_s=cfg.get("shrink_budget", 60.0),
                            timeout=cfg["case_timeout"], log=log)
        viols, oo = _run_case_isolated(mod, small, cfg["case_timeout"] * 5)
        vv = None
        if viols:
            for c in viols:
                if c["class"] == v["class"]:
                    vv = c
                    break
        if vv is None:
            small, vv = case, v
        k2 = match_known(prop, vv, known)
        if k2 is not None:
            known_hit[k2["id"]] = known_hit.get(k2["id"], 0) + len(groups[key])
            continue
        path = write_replay(prop, seed, nrep, small, vv, engine_hash)
        nrep += 1
        n_new += 1
        lines.append(f"VIOLATION property={prop} replay={path}")
        log(f"[violation] class={vv['class']} signature={jdump(vv.get('signature', {}))} "
            f"detail={jdump(vv.get('detail', {}))[:1500]} (x{len(groups[key])} raw)")
    for k in known:
        if k.get("property") == prop and k.get("status") == "known" and k["id"] in known_hit:
            print(f"KNOWN-FINDING: property={prop} {k['what']} [{k['id']}; hit {known_hit[k['id']]}x]", flush=True)
    for ln in lines:
        print(ln, flush=True)
    if n_new:
        exit_code = 1

    wall = time.time() - t_start
    reach_warnings = []
    if hasattr(mod, "reach_warnings"):
        reach_warnings = mod.reach_warnings(stats)
        for wmsg in reach_warnings:
            log(f"[reach-warning] {wmsg}")
    coverage = {
        "evaluations": int(evaluations),
        "distinct_nontrivial": int(len(sigs)),
        "nontrivial_cases": int(nontrivial),
        "rule": mod.RULE,
        "samples": samples[:3] if samples else [{"note": "no sample recorded"}],
        "runs_per_hour": int(evaluations / max(wall, 1e-9) * 3600),
        "seeds": int(evaluations),
        "simulated_time": round(sim_time, 3),
        "counters": {k: stats[k] for k in sorted(stats)},
        "components": getattr(mod, "COMPONENTS", {}),
        "known_findings_hit": known_hit,
        "harness_warnings": harness_warnings[:20],
        "reach_warnings": reach_warnings,
        "source_hash": engine_hash,
        "jobs": jobs,
        "exhaustive": False,
    }
    coverage.update(extra_cov)
    if hasattr(mod, "finish_coverage"):
        mod.finish_coverage(coverage, stats, cfg)
    write_evidence(prop, tier, seed, getattr(mod, "LEVEL", "exploration"), coverage,
                   getattr(mod, "ASSUMPTIONS", []), wall, n_new)
    if harness_errors:
        for e in harness_errors[:10]:
            print(f"HARNESS-ERROR: {e}", flush=True)
        if exit_code == 0:
            exit_code = 2
    print(f"{prop} {tier}: {evaluations} cases, {len(sigs)} distinct non-trivial signatures, "
          f"{n_new} new violation(s), {sum(known_hit.values())} known-finding hit(s), {wall:.1f}s", flush=True)
    return exit_code


def digest_only(modname, tier, seed, cases, jobs):
    """Determinism self-test helper: runs the case batch and prints one digest over all block digests (no oracle phases)."""
    from . import build
    build.activate()
    mod = importlib.import_module(modname)
    cfg = dict(mod.TIERS[tier])
    cfg["cases"] = cases
    cfg.setdefault("block", 100)
    cfg["block"] = min(cfg["block"], max(1, cases // 8))
    cfg.setdefault("case_timeout", 20.0)
    cfg["tier"] = tier
    blk = Block(mod, seed, cfg)
    nblocks = (cfg["cases"] + cfg["block"] - 1) // cfg["block"]
    outs = runner.run_indexed(blk.run_block, nblocks, jobs=jobs, case_timeout=cfg["case_timeout"] * 2 + cfg["block"], confirm=False)
    h = hashlib.sha256()
    bad = 0
    for o in outs:
        if o.status != "ok":
            bad += 1
            h.update(f"{o.index}:{o.status}".encode())
        else:
            h.update(f"{o.index}:{o.value['digest']}:{sorted(o.value['stats'].items())}".encode())
    print(f"DIGEST {mod.PROPERTY} seed={seed} cases={cases} jobs={jobs} hashseed={os.environ.get('PYTHONHASHSEED')} "
          f"blocks={nblocks} not_ok={bad} {h.hexdigest()}", flush=True)
    return 0


def do_replay(mod, path):
    with open(path) as f:
        rep = json.load(f)
    case = rep["case"]
    want = rep.get("violation", {}).get("class")
    if hasattr(mod, "replay_case"):
        viols = mod.replay_case(case)
        o = None
    else:
        viols, o = _run_case_isolated(mod, case, 600.0)
    if viols is None:
        print(f"HARNESS-ERROR: {o.detail}")
        return 2
    hit = [v for v in viols if want is None or v["class"] == want]
    if hit:
        v = hit[0]
        print(f"[replay] class={v['class']} signature={jdump(v.get('signature', {}))} detail={jdump(v.get('detail', {}))[:3000]}")
        known = load_known()
        k = match_known(mod.PROPERTY, v, known)
        if k is not None:
            print(f"KNOWN-FINDING: property={mod.PROPERTY} {k['what']} [{k['id']}]")
            return 0
        print(f"VIOLATION property={mod.PROPERTY} replay={path}")
        return 1
    print(f"[replay] no violation of class {want} reproduced ({len(viols)} other violations)")
    return 0
