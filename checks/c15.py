"""C15 - the inference cost is the stated posterior on correctly aligned data (DESIGN.md 4.9).

Engine `inference`: one live InferenceSetup object driven through a seeded history of cost evaluations (repeats, out-of-support
points interleaved), compared with a stateless reference cost computed outside the object from freshly built twin models, with
a fresh object, and with column- / trajectory-permuted copies of the same data.
"""
import copy
import hashlib
import math

import numpy as np

from simkit import netgen, refmodel as rm, seeds
from simkit import history

PROPERTY = "C15"
LEVEL = "exploration"
RULE = ("case = seeded model (2-3 species, mass action / Hill, optional repeated rule) x 1-4 trajectories each with its own initial "
        "condition, parameter-condition dict (homogeneous or heterogeneous key sets) and time grid x 1-3 measured species (data frame "
        "columns shuffled, extra columns present) x norm order 1-3 x uniform/gaussian priors (with/without 'positive') x a history of "
        "evaluation points theta_1..theta_k with repeats and out-of-support points; deterministic cost (and the stochastic cost with a "
        "fixed seed); oracle = stateless reference cost + fresh object + column permutation + trajectory permutation; non-trivial = "
        ">= 2 in-support evaluations on >= 2 trajectories or >= 2 measured species; distinct = distinct (shape, history pattern) hashes")
ASSUMPTIONS = [
    "the reference simulates each trajectory with bioscrape's own deterministic simulator on a freshly built model (C15 is about "
    "alignment and history, not integration accuracy); the likelihood caps the step with hmax, the reference does not: values are "
    "compared to 1e-5 relative, repeated evaluations of the same object to 1e-12",
    "parameter-condition keys never intersect the estimated parameters (the API asserts this)",
    "stochastic cost: alignment and column permutation only, with the generator re-seeded before each evaluation",
]
COMPONENTS = {"real": ["bioscrape.inference_setup.InferenceSetup", "bioscrape.pid_interfaces (Deterministic/StochasticInference, priors)",
                       "bioscrape.inference (BulkData, StochasticTrajectories, likelihoods)", "pandas data frames",
                       "deterministic and SSA simulators"], "stub": []}
TIERS = {
    "quick": {"cases": 4000, "block": 50, "case_timeout": 90.0},
    "thorough": {"cases": 40000, "block": 100, "case_timeout": 120.0},
}


def gen_model(r):
    for _ in range(200):
        n = r.randint(2, 3)
        species = history.NAMES[:n]
        m = {"species": list(species), "init": {s: r.choice([1, 2, 4, 7, 12]) for s in species}, "params": {}, "reactions": [],
             "rules": []}
        for i in range(r.randint(2, 4)):
            kind = r.choice(["massaction", "massaction", "massaction", "hill"])
            rx = netgen.gen_reaction(r, m, species, allow=(kind,))
            if kind == "hill":
                rx["reactants"] = []
                rx["products"] = [p for p in rx["products"] if p != rx["pd"].get("d")][:1]
            # every rate constant gets a name so that it can be estimated / conditioned
            for key in ("k", "K"):
                if key in rx["pd"] and not isinstance(rx["pd"][key], str):
                    name = f"{key}{len(m['params'])}"
                    m["params"][name] = rx["pd"][key]
                    rx["pd"][key] = name
            m["reactions"].append(rx)
        if not netgen.bounded(m) or len(m["params"]) < 3:
            continue
        if r.random() < 0.25:
            m["species"].append("Tot")
            m["init"]["Tot"] = 0
            m["rules"].append({"type": "additive", "target": "Tot", "expr": list(species[:2]), "freq": "repeated"})
        return m
    return m


def gen_case(case_seed, cfg):
    r = seeds.rng(case_seed, "c15")
    model = gen_model(r)
    pnames = sorted(model["params"])
    n_est = r.randint(1, min(3, len(pnames) - 1))
    est = r.sample(pnames, n_est)
    others = [p for p in pnames if p not in est]
    N = r.choice([1, 2, 2, 3, 4])
    M = r.choice([1, 2, 2, 3])
    meas = r.sample(model["species"], min(M, len(model["species"])))
    T = r.choice([3, 5, 8])
    lam = max(netgen.initial_lambda(model), 0.3)
    trajs = []
    hetero = r.random() < 0.4
    use_cond = bool(others) and r.random() < 0.7
    for n in range(N):
        horizon = r.choice([1.0, 3.0, 8.0]) / lam
        step = max(1, int(round(horizon / (T - 1) * 64))) / 64.0
        off = r.choice([0.0, 0.0, 0.0])
        grid = [off + i * step for i in range(T)]
        plain = [s for s in model["species"] if s != "Tot"]
        ic = {s: r.choice([0, 1, 3, 6, 10, 15]) for s in plain if r.random() < 0.8}
        cond = None
        if use_cond:
            keys = [p for p in others if (r.random() < 0.5 if hetero else True)]
            if not hetero:
                keys = others[: max(1, len(others) // 2)]
            cond = {p: netgen.nice(model["params"][p] * r.choice([0.3, 0.7, 1.5, 3.0])) for p in keys}
        trajs.append({"ic": ic, "cond": cond, "grid": grid})
    if use_cond and not hetero:
        pass
    prior = {}
    for p in est:
        v = model["params"][p]
        if r.random() < 0.5:
            prior[p] = ["uniform", netgen.nice(v * 0.05), netgen.nice(v * 20.0)]
        else:
            prior[p] = ["gaussian", netgen.nice(v), netgen.nice(v * 0.8)]
        if r.random() < 0.4:
            prior[p].append("positive")
        if seeds.rng(r.getrandbits(32), "custom_prior").random() < 0.25:
            # a user supplied ('custom') log-density: Laplace(loc, scale); materialised as a callable in build_setup
            prior[p] = ["custom_laplace", netgen.nice(v), netgen.nice(v * 0.6)] + (["positive"] if "positive" in prior[p] else [])
    thetas = []
    base = [model["params"][p] for p in est]
    pts = []
    for _ in range(r.randint(2, 4)):
        pts.append([netgen.nice(b * r.choice([0.4, 0.8, 1.0, 1.3, 2.5])) for b in base])
    k = r.randint(3, 8)
    for _ in range(k):
        u = r.random()
        if u < 0.2:
            bad = list(r.choice(pts))
            j = r.randrange(len(bad))
            bad[j] = r.choice([-1.0, -0.01]) if "positive" in prior[est[j]] or prior[est[j]][0] == "uniform" else bad[j]
            if prior[est[j]][0] == "uniform" and r.random() < 0.5:
                bad[j] = prior[est[j]][2] * 2.0
            thetas.append(bad)
        else:
            thetas.append(list(r.choice(pts)))
    sim_type = "stochastic" if r.random() < 0.2 else "deterministic"
    col_perm = list(range(len(meas)))
    r.shuffle(col_perm)
    traj_perm = list(range(N))
    r.shuffle(traj_perm)
    return {"model": model, "estimate": est, "prior": prior, "trajs": trajs, "measurements": meas,
            "norm": r.choice([1, 2, 2, 3]), "noise_seed": r.getrandbits(31), "thetas": thetas, "sim_type": sim_type,
            "N_sims": r.choice([1, 2, 3]), "col_perm": col_perm, "traj_perm": traj_perm, "hetero": hetero and use_cond,
            "eval_seed": seeds.bioscrape_seed(case_seed, "eval"), "ic_as_list": r.random() < 0.8}


# ------------------------------------------------------------------ reference
def log_prior(prior, est, theta):
    lp = 0.0
    for p, v in zip(est, theta):
        pr = prior[p]
        if "positive" in pr and v < 0:
            return -math.inf
        if pr[0] == "uniform":
            if v < pr[1] or v > pr[2]:
                return -math.inf
            lp += math.log(1.0 / (pr[2] - pr[1]))
        elif pr[0] == "gaussian":
            lp += -0.5 * ((v - pr[1]) / pr[2]) ** 2 - math.log(math.sqrt(2 * math.pi) * pr[2])
        elif pr[0] == "custom_laplace":
            lp += -abs(v - pr[1]) / pr[2] - math.log(2.0 * pr[2])
    return lp


def materialise_prior(prior):
    """The JSON-able prior description as the dictionary the API takes ('custom' priors carry a callable as last element)."""
    out = {}
    for p, pr in prior.items():
        if pr[0] == "custom_laplace":
            loc, scale = pr[1], pr[2]
            f = (lambda loc, scale: (lambda name, value: -abs(value - loc) / scale - math.log(2.0 * scale)))(loc, scale)
            out[p] = ["custom"] + [x for x in pr[3:] if x == "positive"] + [f]
        else:
            out[p] = list(pr)
    return out


def twin_run(case, traj, theta, stochastic, data_species_order=None):
    """Fresh model with defaults U condition U theta, own initial condition, own grid. Returns rows by species name."""
    from bioscrape.simulator import py_simulate_model, ModelCSimInterface, SSASimulator, DeterministicSimulator
    m = copy.deepcopy(case["model"])
    if traj["cond"]:
        m["params"].update(traj["cond"])
    if theta is not None:
        for p, v in zip(case["estimate"], theta):
            m["params"][p] = v
    m["init"].update(traj["ic"])
    M = rm.to_bioscrape(m)
    grid = np.array(traj["grid"], dtype=float)
    if stochastic:
        ifc = ModelCSimInterface(M)
        res = SSASimulator().py_simulate(ifc, grid)
    else:
        res = py_simulate_model(grid, Model=M, stochastic=False, return_dataframe=False)
    rows = np.array(res.py_get_result(), dtype=float)
    order = M.get_species_list()
    return {s: rows[:, order.index(s)] for s in m["species"]}


def make_data(case):
    """Data frames: noisy deterministic trajectories at the model's own parameters; columns shuffled, extras present."""
    import pandas as pd
    rs = np.random.RandomState(case["noise_seed"])
    frames = []
    for traj in case["trajs"]:
        run = twin_run(case, traj, None, False)
        cols = {}
        for s in case["model"]["species"]:
            cols[s] = run[s] + rs.normal(0.0, 0.3, size=len(traj["grid"]))
        cols["time"] = np.array(traj["grid"], dtype=float)
        cols["unused_extra"] = rs.normal(0, 1, size=len(traj["grid"]))
        names = list(cols)
        rs.shuffle(names)
        frames.append(pd.DataFrame({k: cols[k] for k in names}))
    return frames


def reference_cost(case, frames, theta, stochastic):
    import bioscrape.random as R_
    lp = log_prior(case["prior"], case["estimate"], theta)
    if not math.isfinite(lp):
        return -math.inf
    p = case["norm"]
    err = 0.0
    nsim = case["N_sims"] if stochastic else 1
    for traj, df in zip(case["trajs"], frames):
        for s_ in range(nsim):
            run = twin_run(case, traj, theta, stochastic)
            for sp in case["measurements"]:
                d = df[sp].to_numpy(dtype=float) - run[sp]
                err += float(np.sum(np.abs(d) ** p))
    err = err ** (1.0 / p)
    if stochastic:
        err = err / nsim
    if math.isnan(err):
        return -math.inf
    return lp - err


def build_setup(case, frames, measurements, trajs):
    from bioscrape.inference_setup import InferenceSetup
    M = rm.to_bioscrape(case["model"])
    exp = list(frames)
    ics = [dict(t["ic"]) for t in trajs]
    conds = [dict(t["cond"]) for t in trajs] if trajs[0]["cond"] is not None else None
    if len(frames) == 1 and not case.get("ic_as_list", True):
        # the single-trajectory form of the API: one data frame, one dictionary each
        exp = frames[0]
        ics = ics[0]
        conds = conds[0] if conds is not None else None
    kw = dict(Model=M, exp_data=exp, measurements=list(measurements), time_column="time",
              params_to_estimate=list(case["estimate"]), prior=materialise_prior(case["prior"]), initial_conditions=ics,
              parameter_conditions=conds, norm_order=case["norm"], sim_type=case["sim_type"], nwalkers=4, nsteps=2)
    if case["sim_type"] == "stochastic":
        kw["N_simulations"] = case["N_sims"]
    return InferenceSetup(**kw)


def close(a, b, rel, abs_=1e-9):
    if a == b:
        return True
    if not (math.isfinite(a) and math.isfinite(b)):
        return False
    return abs(a - b) <= max(rel * max(abs(a), abs(b)), abs_)


def run_case(case):
    import warnings
    import bioscrape.random as R_
    warnings.simplefilter("ignore")
    viols = []
    stats = {"setups": 1, "evaluations": 0, "out_of_support": 0}
    stoch = case["sim_type"] == "stochastic"
    conditions = "none" if case["trajs"][0]["cond"] is None else ("heterogeneous" if case["hetero"] else "homogeneous")
    sig = {"sim_type": case["sim_type"], "multi_species": len(case["measurements"]) > 1,
           "heterogeneous_conditions": conditions == "heterogeneous" and len(case["trajs"]) > 1}

    def bad(cls, **d):
        if len(viols) < 4:
            viols.append({"class": cls, "signature": dict(sig), "detail": d})

    try:
        frames = make_data(case)
    except TypeError as e:
        if "complex" not in str(e):
            raise
        # '**' on a concentration the integrator overshot below zero (the known C07 finding): case outside the domain
        return {"violations": [], "stats": {"setups": 1, "skipped_power_of_negative_concentration": 1}, "sig": None,
                "nontrivial": False, "digest": "skipped"}
    log = hashlib.sha256()
    try:
        live = build_setup(case, frames, case["measurements"], case["trajs"])
    except Exception as e:
        bad("setup_failed", error=f"{type(e).__name__}: {str(e)[:300]}")
        return {"violations": viols, "stats": stats, "sig": None, "nontrivial": False, "digest": ""}
    # the aligned data block itself: LL_data[n, t, m] must be trajectory n's value of measured species m at its t-th time
    try:
        LL = np.asarray(live.LL_data, dtype=float)
        want = np.array([[[float(df[sp].to_numpy()[t]) for sp in case["measurements"]] for t in range(len(df))] for df in frames])
        if LL.shape != want.shape or not np.array_equal(LL, want):
            bad("data_not_aligned_by_species_and_time", shape=list(LL.shape), expected_shape=list(want.shape),
                first_values=LL.ravel()[:6].tolist(), expected_first=want.ravel()[:6].tolist())
        stats["aligned_data_blocks_checked"] = 1
    except Exception as e:
        bad("data_block_unreadable", error=f"{type(e).__name__}: {str(e)[:200]}")
    seen = {}
    in_support = 0
    for i, th in enumerate(case["thetas"]):
        if viols:
            break
        if stoch:
            R_.py_seed_random(case["eval_seed"])
        try:
            v = float(live.cost_function(list(th)))
        except Exception as e:
            if isinstance(e, TypeError) and "complex" in str(e):
                # '**' on a concentration the integrator overshot below zero: the known C07 finding, not an alignment matter
                stats["skipped_power_of_negative_concentration"] = 1
                break
            bad("cost_function_raised", theta=th, error=f"{type(e).__name__}: {str(e)[:200]}")
            break
        if stoch:
            R_.py_seed_random(case["eval_seed"])
        try:
            ref = reference_cost(case, frames, th, stoch)
        except TypeError as e:
            if "complex" not in str(e):
                raise
            stats["skipped_power_of_negative_concentration"] = 1
            break
        stats["evaluations"] += 1
        log.update(repr((th, v)).encode())
        if not math.isfinite(ref):
            stats["out_of_support"] += 1
            if v != -math.inf:
                bad("out_of_support_point_not_rejected", theta=th, value=v)
            continue
        in_support += 1
        # the cost is a difference (log-prior minus residual norm): the integrator's tolerance applies to its terms, so the
        # comparison is relative to their magnitude (a positive log-density can cancel the norm almost completely)
        lp_ = log_prior(case["prior"], case["estimate"], th)
        scale = max(abs(ref), abs(lp_), abs(lp_ - ref))
        if not (v == ref or (math.isfinite(v) and abs(v - ref) <= 1e-5 * scale + 1e-7)):
            bad("cost_differs_from_the_stated_posterior", theta=th, evaluation=i, value=v, reference=ref, log_prior=lp_)
            break
        key = tuple(th)
        if key in seen and not close(v, seen[key], 1e-12, 1e-12):
            bad("cost_depends_on_earlier_evaluations", theta=th, first=seen[key], later=v, evaluation=i)
            break
        seen.setdefault(key, v)
    if not viols and seen:
        # fresh object, column permutation, trajectory permutation: one evaluation each at every distinct theta
        for key, v in list(seen.items())[:3]:
            th = list(key)
            fresh = build_setup(case, frames, case["measurements"], case["trajs"])
            if stoch:
                R_.py_seed_random(case["eval_seed"])
            vf = float(fresh.cost_function(th))
            stats["fresh_object_evaluations"] = stats.get("fresh_object_evaluations", 0) + 1
            if not close(vf, v, 1e-9, 1e-9):
                bad("live_object_differs_from_fresh_object", theta=th, live=v, fresh=vf)
                break
            if len(case["measurements"]) > 1:
                pm = [case["measurements"][j] for j in case["col_perm"]]
                if pm != case["measurements"]:
                    o = build_setup(case, frames, pm, case["trajs"])
                    if stoch:
                        R_.py_seed_random(case["eval_seed"])
                    vc = float(o.cost_function(th))
                    stats["column_permutations"] = stats.get("column_permutations", 0) + 1
                    if not close(vc, v, 1e-9, 1e-9):
                        bad("cost_depends_on_measurement_order", theta=th, original=v, permuted=vc,
                            order=[case["measurements"], pm])
                        break
            if len(case["trajs"]) > 1 and not stoch and case["traj_perm"] != sorted(case["traj_perm"]):
                pt = [case["trajs"][j] for j in case["traj_perm"]]
                pf = [frames[j] for j in case["traj_perm"]]
                o = build_setup(case, pf, case["measurements"], pt)
                vt = float(o.cost_function(th))
                stats["trajectory_permutations"] = stats.get("trajectory_permutations", 0) + 1
                if not close(vt, v, 1e-7, 1e-9):
                    bad("cost_depends_on_trajectory_order", theta=th, original=v, permuted=vt, order=case["traj_perm"])
                    break
    stats["in_support"] = in_support
    stats["sim_" + case["sim_type"]] = 1
    stats["cond_" + conditions] = 1
    stats["measured_%d" % len(case["measurements"])] = 1
    stats["traj_%d" % len(case["trajs"])] = 1
    pattern = [tuple(t) for t in case["thetas"]]
    shape = (case["sim_type"], len(case["trajs"]), len(case["measurements"]), case["norm"], conditions,
             [pattern.index(t) for t in pattern], len(case["model"]["reactions"]), bool(case["model"]["rules"]))
    return {"violations": viols, "stats": stats, "sig": repr(shape) + repr(case["model"]["reactions"])[:200],
            "nontrivial": in_support >= 2 and (len(case["trajs"]) >= 2 or len(case["measurements"]) >= 2),
            "digest": log.hexdigest(), "sim_time": 0.0}


def crash_signature(case):
    return {"sim_type": case.get("sim_type")}


def shrink(case):
    if len(case["thetas"]) > 1:
        for i in range(len(case["thetas"])):
            yield dict(case, thetas=case["thetas"][:i] + case["thetas"][i + 1:])
    if len(case["trajs"]) > 1:
        for i in range(len(case["trajs"])):
            t = case["trajs"][:i] + case["trajs"][i + 1:]
            yield dict(case, trajs=t, traj_perm=list(range(len(t)))[::-1])
    if len(case["measurements"]) > 1:
        for i in range(len(case["measurements"])):
            m = case["measurements"][:i] + case["measurements"][i + 1:]
            yield dict(case, measurements=m, col_perm=list(range(len(m)))[::-1])
    m = case["model"]
    for i in range(len(m["reactions"])):
        if len(m["reactions"]) > 1:
            mm = dict(m, reactions=m["reactions"][:i] + m["reactions"][i + 1:])
            used = set()
            for rx in mm["reactions"]:
                used |= {v for v in rx["pd"].values() if isinstance(v, str)}
            if all(p in used for p in case["estimate"]):
                yield dict(case, model=mm)
    if case["norm"] != 1:
        yield dict(case, norm=1)
    for i, t in enumerate(case["trajs"]):
        if len(t["grid"]) > 2:
            tt = dict(t, grid=t["grid"][:2])
            if all(len(x["grid"]) == len(t["grid"]) for x in case["trajs"]):
                yield dict(case, trajs=[dict(x, grid=x["grid"][:2]) for x in case["trajs"]])
            break


def sample(case, res):
    return {"model": {"species": case["model"]["species"], "reactions": case["model"]["reactions"][:2], "params": case["model"]["params"]},
            "estimate": case["estimate"], "prior": case["prior"], "trajectories": case["trajs"][:2],
            "measurements": case["measurements"], "norm": case["norm"], "thetas": case["thetas"], "sim_type": case["sim_type"]}


def reach_warnings(stats):
    out = []
    for k in ("sim_deterministic", "sim_stochastic", "cond_none", "cond_homogeneous", "cond_heterogeneous", "measured_1",
              "measured_2", "measured_3", "traj_1", "traj_2", "traj_4", "out_of_support", "fresh_object_evaluations",
              "column_permutations", "trajectory_permutations"):
        if stats.get(k, 0) == 0:
            out.append(f"kind {k} never fired in this batch")
    return out


def finish_coverage(cov, stats, cfg):
    cov["fault_kinds"] = {"repeat_eval": {"fired": stats.get("evaluations", 0)},
                          "out_of_support": {"fired": stats.get("out_of_support", 0)},
                          "perm_cols": {"fired": stats.get("column_permutations", 0)},
                          "perm_traj": {"fired": stats.get("trajectory_permutations", 0)}}
