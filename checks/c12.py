"""C12 - writing a model to SBML and reading it back preserves its behaviour (DESIGN.md 4.8)."""
from simkit import history, seeds
from checks import c08, c17

PROPERTY = "C12"
LEVEL = "exploration"
RULE = ("case = seeded history over edit / simulate operations plus {restart through the SBML file (deterministic or stochastic "
        "export), write twice with a simulation in between}: the model read back replaces the live one and the history continues "
        "(so files are written after edits, after simulations, after earlier restarts, exports interleaved); every restart compares "
        "original and reloaded model by species name: initial values, named parameters, immediate and delayed stoichiometry, rate "
        "laws at sampled states in deterministic / volume / stochastic / stochastic-volume / safe form, delay classes and draws under "
        "a common seed, rule behaviour and firing frequency at sampled (state, time, step) points, seeded simulations; non-trivial = "
        "history with >= 1 SBML restart; distinct = distinct op-kind sequences")
ASSUMPTIONS = c08.ASSUMPTIONS + [
    "names are valid SBML identifiers; truncated or corrupted files are not injected (the property promises nothing about them)",
    "documents are compared after masking the generated model id",
]
COMPONENTS = {"real": ["Model.write_sbml_model / generate_sbml_model, bioscrape.sbmlutil (export and import), libsbml, the real file "
                       "system (scratch directory outside /repo and /verif)", "all simulators through py_simulate_model"], "stub": []}
TIERS = {
    "quick": {"cases": 2400, "block": 50, "case_timeout": 60.0},
    "thorough": {"cases": 60000, "block": 120, "case_timeout": 90.0},
}
ALPHABET = (["add_species", "add_reaction", "add_reaction", "create_parameter", "set_parameter", "set_params", "set_species",
             "create_rule", "create_rule", "initialize", "simulate", "simulate", "probe",
             "restart_sbml", "restart_sbml", "restart_sbml", "restart_sbml", "write_twice"])


def gen_case(case_seed, cfg):
    r = seeds.rng(case_seed, "c12")
    n_ops = r.choice([2, 4, 6, 10, 16])
    # one case in seven carries a rule that assigns a rate parameter (repeated, per step, or at a scheduled time: the
    # parameter's own value matters until the rule first fires)
    pr = seeds.rng(case_seed, "param_rule").random() < 0.15
    base, ops = history.gen_history(r, n_ops, ALPHABET, param_rule_stratum=pr, param_rule_freqs=("repeated", "dt", 1.0, 0.25, 2.5))
    if not any(o[0] == "restart_sbml" for o in ops):
        ops.insert(len(ops) - 1, ["restart_sbml", r.random() < 0.5])
    return {"base": base, "ops": ops, "stratum": "plain", "pseed": seeds.derive(case_seed, "p")}


def run_case(case):
    out = c17.run_case(case)
    out["nontrivial"] = any(o[0] == "restart_sbml" for o in case["ops"])
    for ru in list(case["base"]["rules"]) + [o[1] for o in case["ops"] if o[0] == "create_rule"]:
        key = "rule_" + ru["type"] + "_" + (str(ru.get("freq")) if ru.get("freq") in ("repeated", "dt", "start") else "time")
        out["stats"][key] = out["stats"].get(key, 0) + 1
    return out


crash_signature = c08.crash_signature
shrink = c08.shrink
sample = c08.sample


def reach_warnings(stats):
    out = []
    for k in ("sbml_restarts", "sbml_stochastic_export", "sbml_deterministic_export", "write_twice", "stochastic_forms_compared",
              "restart_seeded_comparisons", "ptype_massaction", "ptype_general", "ptype_hillpositive", "ptype_hillnegative",
              "ptype_proportionalhillpositive", "ptype_proportionalhillnegative", "dtype_fixed", "dtype_gaussian", "dtype_gamma",
              "rule_additive_repeated", "rule_assignment_repeated", "rule_assignment_dt", "rule_assignment_start",
              "rule_assignment_time"):
        if stats.get(k, 0) == 0:
            out.append(f"kind {k} never fired in this batch")
    return out


finish_coverage = c08.finish_coverage
