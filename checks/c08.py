"""C08 - results depend only on the model's current definition and the seed (DESIGN.md 4.4)."""
import copy

from simkit import history, seeds

PROPERTY = "C08"
LEVEL = "exploration"
RULE = ("case = seeded history (<= 40 ops) over {add species / reaction / parameter / rule, set parameter(s) / species, "
        "initialise (also twice), build interface (plain/safe), simulate in {det, ssa, safe, volume, delay} through the model or a "
        "live interface, seed, deterministic simulation of another model, jacobian / sensitivity calls} on a live Model with a "
        "shadow description; probes compare the live model with a twin built at once from the shadow (seeded simulation in a drawn "
        "mode, bit for bit for stochastic modes) and the dictionaries after every step; non-trivial = history with >= 1 definition "
        "edit and >= 1 simulation before a probe; distinct = distinct operation-kind sequences")
ASSUMPTIONS = [
    "no rule assigns a parameter (a separate stratum with such a rule checks only that *other* parameters and the initial condition stay put)",
    "interfaces are used only when built since the last definition edit; a stale interface on a not re-initialised model must raise",
    "models stay in the non-negative domain (non-mass-action rates only on reactions without net consumption)",
    "deterministic outputs are compared to 1e-6 relative (same species order, so normally bit-identical)",
]
COMPONENTS = {"real": ["bioscrape.types.Model (incremental API)", "ModelCSimInterface / SafeModelCSimInterface", "py_simulate_model, all "
                       "simulators", "bioscrape.analysis (jacobian, sensitivity)", "bioscrape.random (seeded)"], "stub": []}
TIERS = {
    "quick": {"cases": 6000, "block": 100, "case_timeout": 40.0},
    "thorough": {"cases": 150000, "block": 250, "case_timeout": 60.0},
}
ALPHABET = (["add_species", "add_reaction", "add_reaction", "add_reaction_valueless", "create_parameter", "set_parameter",
             "set_parameter", "set_params", "set_species", "set_species", "create_rule", "initialize", "initialize_twice",
             "build_interface", "build_interface", "simulate", "simulate", "simulate", "simulate", "seed", "other_model_det",
             "jacobian", "sensitivity", "probe", "probe"])


def gen_case(case_seed, cfg):
    r = seeds.rng(case_seed, "c08")
    stratum = "param_rule" if r.random() < 0.12 else "plain"
    n_ops = r.choice([3, 5, 8, 12, 20, 30, 40])
    base, ops = history.gen_history(r, n_ops, ALPHABET, param_rule_stratum=(stratum == "param_rule"), allow_ode=True)
    return {"base": base, "ops": ops, "stratum": stratum, "pseed": seeds.derive(case_seed, "p")}


def run_case(case):
    m = history.Machine(case)
    try:
        m.run()
    finally:
        m.cleanup()
    kinds = [o[0] for o in case["ops"]]
    edits = sum(1 for k in kinds if k in ("add_species", "add_reaction", "add_reaction_valueless", "create_parameter",
                                          "create_rule", "set_parameter", "set_params", "set_species"))
    sims = sum(1 for k in kinds if k == "simulate")
    m.stats["stratum_" + case["stratum"]] = 1
    return {"violations": m.viols, "stats": m.stats, "sig": repr([o[0] if o[0] != "simulate" else o[0] + o[1] for o in case["ops"]]),
            "nontrivial": edits >= 1 and sims >= 1, "digest": m.log.hexdigest(), "sim_time": 0.0}


def crash_signature(case):
    return {"stratum": case.get("stratum")}


def shrink(case):
    ops = case["ops"]
    n = len(ops)
    size = max(1, n // 2)
    while size >= 1:
        for i in range(0, n, size):
            cand = ops[:i] + ops[i + size:]
            if len(cand) < n and cand:
                yield dict(case, ops=cand)
        size //= 2
    b = case["base"]
    for i in range(len(b["reactions"])):
        if len(b["reactions"]) > 1:
            yield dict(case, base=dict(b, reactions=b["reactions"][:i] + b["reactions"][i + 1:]))
    for i, rx in enumerate(b["reactions"]):
        if rx.get("delay"):
            yield dict(case, base=dict(b, reactions=b["reactions"][:i] + [dict(rx, delay=None)] + b["reactions"][i + 1:]))


def sample(case, res):
    return {"base": {"species": case["base"]["species"], "reactions": case["base"]["reactions"][:2],
                     "rules": case["base"]["rules"]}, "ops": case["ops"][:10], "n_ops": len(case["ops"]),
            "stratum": case["stratum"]}


def reach_warnings(stats):
    out = []
    for k in ("probes", "probe_det", "probe_ssa", "probe_safe", "probe_volume", "probe_delay", "sim_via_interface",
              "stale_interface_rejected", "valueless_parameter_rejected", "op_other_model_det", "op_jacobian", "op_sensitivity",
              "op_create_rule", "op_add_species", "stratum_param_rule"):
        if stats.get(k, 0) == 0:
            out.append(f"kind {k} never fired in this batch")
    return out


def finish_coverage(cov, stats, cfg):
    cov["operations"] = stats.get("ops", 0)
    cov["fault_kinds"] = {k[3:]: {"fired": v} for k, v in stats.items() if k.startswith("op_")}
