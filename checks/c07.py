"""C07 - every simulation mode returns a complete, correctly labelled result (DESIGN.md 4.3).

Engine `entry`: the full option lattice of py_simulate_model (128 points, enumerated: case i takes point i mod 128)
crossed with seeded models (with/without delays x with/without rules), uniform grids from 0 and seeds; crash-isolated.
"""
import hashlib
import traceback

import numpy as np

from simkit import netgen, refmodel as rm, seeds

PROPERTY = "C07"
LEVEL = "exploration"
RULE = ("case i = option-lattice point i mod 128 of {stochastic} x {delay} x {safe} x {volume: off, True, number, volume "
        "object (constant or dividing)} x {data frame, result object} x {Model, pre-built interface} crossed with a seeded model "
        "from 4 strata (delays x rules), a uniform grid from 0 and a seed; oracle: explicit option error or a complete, correctly "
        "labelled result; non-trivial = call that returned a result with >= 2 rows; distinct = distinct (lattice point, model "
        "stratum, outcome kind, result signature)")
ASSUMPTIONS = [
    "an 'explicit rejection' is a ValueError/TypeError raised by the entry point itself (deepest frame py_simulate_model) whose "
    "message names an option; anything else raised, a dead worker or a hang is 'fails from inside'",
    "when only a pre-built interface is passed species columns are compared positionally (the API documents that names are "
    "unavailable then)",
    "models are kept in the non-negative domain (non-mass-action rates only on reactions without net consumption)",
]
COMPONENTS = {"real": ["bioscrape.simulator.py_simulate_model and everything behind it (interfaces, all simulators, result "
                       "classes, pandas data frames)", "bioscrape.types Model / Volume / StochasticTimeThresholdVolume"],
              "stub": []}
TIERS = {
    "quick": {"cases": 128 * 40, "block": 64, "case_timeout": 30.0},
    "thorough": {"cases": 128 * 800, "block": 128, "case_timeout": 60.0},
}
VOLS = ["off", "true", "number", "object"]
OPTION_WORDS = ("volume", "delay", "stochastic", "safe", "model", "interface", "timepoints", "option", "combination")


def lattice_point(i):
    i = i % 128
    return {"stochastic": bool(i & 1), "delay": bool(i & 2), "safe": bool(i & 4), "volume": VOLS[(i >> 3) & 3],
            "dataframe": bool(i & 32), "via": "model" if (i & 64) else "interface"}


def gen_model(r, with_delay, with_rules):
    n_sp = r.randint(1, 3)
    species = netgen.SPECIES[:n_sp]
    m = {"species": list(species), "init": {s: r.choice([0, 1, 3, 6, 10, 20]) for s in species}, "params": {},
         "reactions": [], "rules": []}
    for _ in range(r.randint(1, 4)):
        kind = r.choice(["massaction", "massaction", "hill", "general"])
        if kind == "massaction":
            rx = netgen.gen_reaction(r, m, species, allow=("massaction",))
        else:
            rx = netgen.gen_reaction(r, m, species, allow=(kind,))
            rx["reactants"] = []
            rx["products"] = [p for p in rx["products"] if p != rx["pd"].get("d")][:1]
            if rx["type"] == "general":
                rx["pd"] = {"rate": ["num", netgen.rate(r, 0.1, 5.0)]}
        m["reactions"].append(rx)
    if with_delay:
        netgen.add_delays(r, m, 0.5, 10.0, p=0.8)
        if not any(x.get("delay") for x in m["reactions"]):
            m["reactions"][0]["delay"] = {"type": "fixed", "reactants": [], "products": [species[0]], "pd": {"delay": 1.5}}
    if with_rules:
        m["species"].append("Tot")
        m["init"]["Tot"] = 0
        # every firing frequency: all of them fire at the initial instant, so the first row must show every rule applied
        m["rules"].append({"type": "additive", "target": "Tot", "expr": [s for s in species],
                           "freq": r.choice(["repeated", "repeated", "dt", "start"])})
        if r.random() < 0.5:
            m["species"].append("Z")
            m["init"]["Z"] = 0
            m["rules"].append({"type": "assignment", "target": "Z", "expr": ["num", 11.0], "freq": r.choice(["dt", "start", "repeated"])})
        if r.random() < 0.6:
            m["species"].append("Y")
            m["init"]["Y"] = 1
            m["params"]["pY"] = 2.5
            m["rules"].append({"type": "assignment", "target": "Y",
                               "expr": ["+", ["*", ["par", "pY"], ["sp", "Tot"]], ["num", 1.0]], "freq": "repeated"})
        if seeds.rng(r.getrandbits(32), "volrule").random() < 0.5:
            # a rule that reads the cell volume: it must see the volume the simulation runs at (1 where none is in play)
            m["species"].append("W")
            m["init"]["W"] = 0
            m["rules"].append({"type": "assignment", "target": "W",
                               "expr": ["+", ["*", ["num", 3.0], ["vol"]], ["sp", "Tot"]], "freq": "repeated"})
    return m


def gen_case(case_seed, cfg):
    # the lattice index comes from the case index (set by the driver after generation): use the seed-independent counter
    r = seeds.rng(case_seed, "c07")
    stratum = r.randrange(4)
    for attempt in range(100):
        model = gen_model(seeds.rng(case_seed, "model", attempt), with_delay=bool(stratum & 1), with_rules=bool(stratum & 2))
        if netgen.bounded(model):
            break
    npts = r.choice([3, 6, 11, 25])
    lam = max(netgen.initial_lambda(model), 0.5)
    horizon = netgen.cap_horizon(model, r.choice([5, 30, 120]) / lam, max_events=5000)
    k = max(1, min(64 * 20, int(round(horizon / (npts - 1) * 64))))
    step = k / 64.0
    grid = [i * step for i in range(npts)]
    vnum = r.choice([1.7, 0.3, 4.0, 1.0])
    vobj = r.choice(["const", "const", "dividing"])
    vcycle = r.choice([0.6, 0.6, 1.2, 2.5])     # cell cycle / horizon: division early, late, or never within the grid
    # the lattice point of this case is called first; then up to two more calls (other lattice points) on the SAME model
    # object / interfaces: a result must be complete and start from the initial condition whatever was simulated before
    extra = [r.randrange(128) for _ in range(r.choice([0, 1, 2, 2]))]
    return {"model": model, "grid": grid, "stratum": stratum, "bseed": seeds.bioscrape_seed(case_seed, "run"),
            "vnum": vnum, "vobj": vobj, "vcycle": vcycle, "lattice": None, "extra_calls": extra}


def _first_row_expected(model, stochastic_mode, vol=None):
    st = {s: float(model["init"].get(s, 0)) for s in model["species"]}
    pr = dict(model["params"])
    rm.apply_rules(model, st, pr, 0.0, True, 1.0, vol=vol)
    return st


def run_case(case):
    import bioscrape.random as R_
    lp0 = case["lattice"] if case.get("lattice") else lattice_point(case["_index"])
    M = rm.to_bioscrape(case["model"])
    R_.py_seed_random(case["bseed"])
    points = [lp0] + [lattice_point(i) for i in case.get("extra_calls", [])]
    shared = {"M": M, "ifaces": {}}
    total = {"violations": [], "stats": {}, "sigs": [], "nontrivial": False, "digest": hashlib.sha256()}
    for pos, lp in enumerate(points):
        out = _one_call(case, lp, shared, pos)
        for k, v in out["stats"].items():
            total["stats"][k] = total["stats"].get(k, 0) + v
        total["violations"] += out["violations"]
        total["sigs"].append(out["sig"])
        total["nontrivial"] = total["nontrivial"] or out["nontrivial"]
        total["digest"].update(out["digest"].encode())
        if out["violations"]:
            break
    if len(points) > 1:
        total["stats"]["multi_call_cases"] = 1
    return {"violations": total["violations"], "stats": total["stats"], "sig": repr(total["sigs"]),
            "nontrivial": total["nontrivial"], "digest": total["digest"].hexdigest(), "sim_time": case["grid"][-1] * len(points)}


def _one_call(case, lp, shared, pos):
    import warnings
    import pandas
    from bioscrape.simulator import py_simulate_model, ModelCSimInterface, SafeModelCSimInterface
    from bioscrape.types import Volume, StochasticTimeThresholdVolume
    model = case["model"]
    grid = np.array(case["grid"], dtype=float)
    M = shared["M"]
    species_order = M.get_species_list()
    kw = {"stochastic": lp["stochastic"], "safe": lp["safe"], "return_dataframe": lp["dataframe"]}
    kw["delay"] = True if lp["delay"] else None
    vol_in_play = lp["volume"] != "off"
    dividing = False
    if lp["volume"] == "off":
        kw["volume"] = False
    elif lp["volume"] == "true":
        kw["volume"] = True
    elif lp["volume"] == "number":
        kw["volume"] = case["vnum"]
    else:
        if case["vobj"] == "const":
            v = Volume()
            v.py_set_volume(case["vnum"])
        else:
            v = StochasticTimeThresholdVolume(case["grid"][-1] * case.get("vcycle", 0.6), case["vnum"] * 1.5, 0.05)
            st0 = np.array([float(model["init"].get(s, 0)) for s in species_order])
            v.py_initialize(st0, np.zeros(1), 0.0, case["vnum"])
            dividing = True
        kw["volume"] = v
    if lp["via"] == "model":
        kw["Model"] = M
    else:
        key = "safe" if lp["safe"] else "plain"
        if key not in shared["ifaces"]:
            shared["ifaces"][key] = SafeModelCSimInterface(M) if lp["safe"] else ModelCSimInterface(M)
        kw["Interface"] = shared["ifaces"][key]     # a pre-built interface, reused by later calls of the same case
    stats = {"calls": 1}
    viols = []
    sig = {"stochastic": lp["stochastic"], "delay": lp["delay"], "safe": lp["safe"], "volume": lp["volume"],
           "dataframe": lp["dataframe"], "via": lp["via"], "call": "first" if pos == 0 else "later"}
    if lp["volume"] == "object":
        sig["volume_object"] = case["vobj"]

    def bad(cls, **d):
        viols.append({"class": cls, "signature": dict(sig), "detail": d})

    outcome = "returned"
    res = None
    try:
        with warnings.catch_warnings():
            warnings.simplefilter("ignore")
            res = py_simulate_model(grid, **kw)
    except BaseException as e:
        tb = traceback.extract_tb(e.__traceback__)
        deepest = tb[-1].name if tb else ""
        msg = str(e).lower()
        explicit = isinstance(e, (ValueError, TypeError)) and deepest.endswith("py_simulate_model") and \
            any(w in msg for w in OPTION_WORDS)
        if explicit:
            outcome = "rejected"
            stats["explicit_rejections"] = 1
        else:
            outcome = "failed_inside"
            site = "other"
            if "complex" in msg and ("Hill" in deepest or "PowerTerm" in deepest) and not (lp["stochastic"] or lp["delay"]):
                # deterministic integration: '**' on a (numerically) negative concentration
                site = "power_of_negative_concentration_in_deterministic_rhs"
            viols.append({"class": "fails_from_inside", "signature": dict(sig, failure_site=site),
                          "detail": {"error": f"{type(e).__name__}: {str(e)[:300]}", "deepest_frame": deepest}})
    stochastic_mode = lp["stochastic"] or lp["delay"]
    result_sig = None
    n_rows = 0
    if dividing and stochastic_mode:
        # "one row per requested time point up to cell division": the volume object itself says at which growth tick k*dt it
        # divides (asked after the run, with the division time it was initialised with); rows 0..k are then due
        dividing = _division_tick(kw["volume"], grid, len(species_order))
        stats["division_within_grid" if dividing[1] is not None else "division_after_grid"] = 1
    if outcome == "returned":
        stats["returned"] = 1
        expect_vol = vol_in_play and stochastic_mode
        n = len(grid)
        if lp["dataframe"]:
            df = res
            if not isinstance(df, pandas.DataFrame):
                bad("not_a_dataframe", type=str(type(df)))
            else:
                cols = list(df.columns)
                names = species_order if lp["via"] == "model" else list(range(len(species_order)))
                want = list(names) + ["time"] + (["volume"] if expect_vol else [])
                if cols[:len(names)] != list(names) or sorted(map(str, cols)) != sorted(map(str, want)):
                    bad("wrong_columns", got=[str(c) for c in cols], expected=[str(c) for c in want])
                else:
                    n_rows = len(df)
                    t = df["time"].to_numpy()
                    rows = df[list(names)].to_numpy(dtype=float)
                    vols = df["volume"].to_numpy(dtype=float) if expect_vol else None
                    result_sig = _check_result(case, lp, rows, t, vols, None, dividing, stochastic_mode, species_order, bad)
        else:
            try:
                rows = np.array(res.py_get_result(), dtype=float)
                t = res.py_get_timepoints()
                vols = None
                divided = None
                if expect_vol:
                    if not hasattr(res, "py_get_volume"):
                        bad("result_object_without_volume", type=type(res).__name__)
                    else:
                        vols = np.array(res.py_get_volume(), dtype=float)
                        divided = int(res.py_cell_divided())
                n_rows = rows.shape[0]
                result_sig = _check_result(case, lp, rows, t, vols, divided, dividing, stochastic_mode, species_order, bad)
            except Exception as e:
                bad("result_object_unusable", error=f"{type(e).__name__}: {str(e)[:200]}")
    h = hashlib.sha256(repr((lp, outcome, result_sig)).encode()).hexdigest()
    stats["lattice_%d" % _lp_index(lp)] = 1
    return {"violations": viols, "stats": stats, "sig": repr((_lp_index(lp), case["stratum"], outcome, result_sig)),
            "nontrivial": outcome == "returned" and n_rows >= 2, "digest": h, "sim_time": case["grid"][-1]}


def _division_tick(v, grid, nspecies):
    dt = float(grid[1] - grid[0])
    st, pr = np.zeros(nspecies), np.zeros(1)
    for k in range(1, len(grid)):
        if v.py_cell_divided(st, pr, k * dt, 1.0, dt):
            return ("tick", k)
    return ("tick", None)


def _lp_index(lp):
    return (int(lp["stochastic"]) | int(lp["delay"]) << 1 | int(lp["safe"]) << 2 | VOLS.index(lp["volume"]) << 3
            | int(lp["dataframe"]) << 5 | int(lp["via"] == "model") << 6)


def _check_result(case, lp, rows, t, vols, divided, dividing, stochastic_mode, species_order, bad):
    grid = np.array(case["grid"], dtype=float)
    n = len(grid)
    nr = rows.shape[0]
    if t is None or (hasattr(t, "__len__") and len(t) == nr and any(x is None for x in np.asarray(t, dtype=object))):
        bad("time_axis_missing", rows=nr)
        return ("no_time",)
    t = np.asarray(t, dtype=float)
    if rows.ndim != 2 or rows.shape[1] != len(species_order):
        bad("wrong_number_of_species_columns", shape=list(rows.shape), species=len(species_order))
        return ("shape",)
    can_divide = bool(dividing) and stochastic_mode and lp["volume"] == "object"
    if nr != n and not (can_divide and 1 <= nr < n):
        bad("wrong_number_of_rows", rows=nr, requested=n)
        return ("rows",)
    if can_divide and isinstance(dividing, tuple):
        k = dividing[1]
        want = n if k is None else k + 1
        if nr != want:
            bad("rows_do_not_end_at_cell_division", rows=nr, requested=n, division_tick=k, expected_rows=want)
            return ("rows",)
    if len(t) != nr or not np.array_equal(t, grid[:nr]):
        bad("time_axis_differs_from_request", got=t[:5].tolist(), requested=grid[:5].tolist(), rows=nr)
        return ("time",)
    if nr < n and divided is not None and divided != 1:
        bad("truncated_but_not_flagged_divided", rows=nr, requested=n)
    if vols is not None:
        if len(vols) != nr or np.any(vols <= 0):
            bad("volume_column_incomplete", vols=np.asarray(vols)[:5].tolist(), rows=nr)
        elif lp["volume"] == "number" or (lp["volume"] == "object" and case["vobj"] == "const"):
            # a volume given as a number / as a constant volume object is that number on every row
            if not np.all(vols == case["vnum"]):
                bad("volume_column_is_not_the_given_volume", vols=np.asarray(vols)[:5].tolist(), given=case["vnum"])
        elif lp["volume"] == "true" and not np.all(vols == vols[0]):
            bad("volume_column_changes_without_a_growth_law", vols=np.asarray(vols)[:5].tolist())
    # first row = initial condition with assignment rules applied
    vol0 = None
    if stochastic_mode and lp["volume"] != "off":
        vol0 = 1.0 if lp["volume"] == "true" else case["vnum"]
    exp = _first_row_expected(case["model"], stochastic_mode, vol0)
    got = {s: float(rows[0][species_order.index(s)]) for s in case["model"]["species"]}
    for s in exp:
        if s == "W" and not stochastic_mode and lp["volume"] != "off":
            continue        # (which volume a deterministic run shows to its rules is not part of the statement)
        if not rm.close(exp[s], got[s], 1e-9, 1e-12):
            bad("first_row_is_not_the_initial_condition", species=s, expected=exp[s], got=got[s])
            break
    if not np.all(np.isfinite(rows)):
        bad("non_finite_values", row=int(np.argwhere(~np.isfinite(rows))[0][0]))
    return ("ok", nr == n)


def crash_signature(case):
    lp = case["lattice"] if case.get("lattice") else lattice_point(case["_index"])
    sig = {"stochastic": lp["stochastic"], "delay": lp["delay"], "safe": lp["safe"], "volume": lp["volume"],
           "dataframe": lp["dataframe"], "via": lp["via"]}
    if lp["volume"] == "object":
        sig["volume_object"] = case["vobj"]
    return sig


def shrink(case):
    base = dict(case)
    if not base.get("lattice"):
        base["lattice"] = lattice_point(case["_index"])
    lp = base["lattice"]
    m = base["model"]
    ex = base.get("extra_calls", [])
    for i in range(len(ex)):
        yield dict(base, extra_calls=ex[:i] + ex[i + 1:])
    for i in range(len(m["reactions"])):
        if len(m["reactions"]) > 1:
            yield dict(base, model=dict(m, reactions=m["reactions"][:i] + m["reactions"][i + 1:]))
    if m["rules"]:
        keep = [s for s in m["species"] if s not in ("Tot", "Y", "Z")]
        yield dict(base, model=dict(m, rules=[], species=keep, init={s: m["init"][s] for s in keep},
                                    params={k: v for k, v in m["params"].items() if k != "pY"}))
    for i, rx in enumerate(m["reactions"]):
        if rx.get("delay"):
            yield dict(base, model=dict(m, reactions=m["reactions"][:i] + [dict(rx, delay=None)] + m["reactions"][i + 1:]))
    if len(base["grid"]) > 3:
        yield dict(base, grid=base["grid"][:3])
    # simplify options that are not part of the failing signature one at a time
    for key, simple in (("dataframe", False), ("safe", False), ("via", "model")):
        if lp[key] != simple:
            yield dict(base, lattice=dict(lp, **{key: simple}))


def sample(case, res):
    lp = case["lattice"] if case.get("lattice") else lattice_point(case["_index"])
    return {"lattice_point": lp, "stratum": case["stratum"], "species": case["model"]["species"],
            "reactions": case["model"]["reactions"][:2], "rules": case["model"]["rules"], "n_grid": len(case["grid"])}


def reach_warnings(stats):
    missing = [i for i in range(128) if stats.get("lattice_%d" % i, 0) == 0]
    return [f"lattice points never exercised: {missing}"] if missing else []


def finish_coverage(cov, stats, cfg):
    covered = sum(1 for i in range(128) if stats.get("lattice_%d" % i, 0) > 0)
    cov["lattice_points_covered"] = covered
    cov["lattice_points_total"] = 128
    cov["min_calls_per_lattice_point"] = min(stats.get("lattice_%d" % i, 0) for i in range(128))
    cov["exhaustive"] = covered == 128
    cov["exhaustive_dimension"] = "the option lattice (128 points) is enumerated completely; models, grids and seeds are sampled"
    cov["outcomes"] = {"returned": stats.get("returned", 0), "explicit_rejections": stats.get("explicit_rejections", 0)}
    for i in range(128):
        cov["counters"].pop("lattice_%d" % i, None)
