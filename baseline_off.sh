#!/bin/bash
# Rebuild /repo in place and run the pinned suite with the hook guard OFF.
set -e
unset BIOSCRAPE_VERIF
cd /repo
/venv/bin/python setup.py build_ext --inplace -j 8 -q > /var/tmp/bioscrape-verif-inplace-build.log 2>&1 || { tail -50 /var/tmp/bioscrape-verif-inplace-build.log; exit 3; }
exec /venv/bin/python -m pytest -ra -q -p no:cacheprovider --timeout=900 --continue-on-collection-errors "$@"
