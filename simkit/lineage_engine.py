"""Engine `lineage`: seeded lineage models (reactions + growth + division + death + splitters), whole lineages and single
cells simulated by the real LineageSSASimulator under seeded / scripted uniform streams with tracing; protocol-free oracles over
the returned Lineage (DESIGN.md 4.11), plus the single-cell executor used by C09 and the pickling probes used by C17."""
import copy
import hashlib
import math
import pickle

import numpy as np

from . import mt64, netgen, pathinv, refmodel as rm, seeds, trace as tr

SPECIES = ["A", "B", "C"]
MODES = ["binomial", "perfect", "duplicate"]


# ------------------------------------------------------------------ generation
def gen_lineage_model(r, absorb=False, allow_death=True):
    for _ in range(100):
        n = r.randint(1, 3)
        species = SPECIES[:n]
        m = {"species": list(species), "init": {s: r.choice([0, 2, 5, 9, 14, 20]) for s in species}, "params": {},
             "reactions": [], "rules": []}
        for _i in range(r.randint(1, 3)):
            rx = netgen.gen_reaction(r, m, species, allow=("massaction",))
            m["reactions"].append(rx)
        if absorb:
            m["reactions"] = [x for x in m["reactions"] if x["reactants"]] or \
                [{"reactants": [species[0]], "products": [], "type": "massaction", "pd": {"k": 1.0}, "delay": None}]
            for s in species:
                m["init"][s] = r.choice([0, 1, 2, 4])
        if netgen.bounded(m):
            break
    dt = r.choice([0.125, 0.25, 0.5])
    npts = r.choice([9, 17, 33, 49])
    horizon = dt * (npts - 1)
    # growth
    g = netgen.nice(r.uniform(0.3, 2.5) / horizon)
    gk = r.choice(["rule_linear", "rule_multiplicative", "rule_multiplicative", "rule_ode", "event_linear", "event_multiplicative",
                   "event_general", "rule_assignment"])
    growth = {"kind": gk, "rate": g}
    if gk.startswith("rule") and gk not in ("rule_ode", "rule_assignment") and r.random() < 0.25:
        growth["noise"] = netgen.nice(g * 0.2)
    if gk.startswith("event"):
        growth["k"] = netgen.nice(r.uniform(0.5, 4.0) / dt / 4)      # event rate
        growth["rate"] = netgen.nice(r.uniform(0.02, 0.15))
    # division
    dk = r.choice(["rule_time", "rule_volume", "rule_deltav", "rule_general", "event"])
    division = {"kind": dk}
    if dk == "rule_time":
        division["threshold"] = netgen.nice(horizon * r.uniform(0.15, 0.6))
    elif dk == "rule_volume":
        division["threshold"] = netgen.nice(r.uniform(1.3, 2.5))
    elif dk == "rule_deltav":
        division["threshold"] = netgen.nice(r.uniform(0.3, 1.2))
    elif dk == "rule_general":
        division["threshold"] = netgen.nice(r.uniform(1.3, 2.5))
    else:
        division["k"] = netgen.nice(r.uniform(1.0, 4.0) / horizon)
    if dk in ("rule_time", "rule_volume", "rule_deltav") and r.random() < 0.25:
        division["noise"] = netgen.nice(division["threshold"] * 0.1)
    death = None
    if allow_death and r.random() < 0.35:
        if r.random() < 0.5:
            death = {"kind": "event", "k": netgen.nice(r.uniform(0.1, 1.0) / horizon)}
        else:
            # (small thresholds make cells die at birth: the record of such a cell must still be a real row)
            death = {"kind": "rule_species", "specie": r.choice(species), "threshold": r.choice([1, 4, 25, 40, 60]), "comp": ">"}
    sk = r.choice(["lineage", "lineage", "lineage", "perfect_binomial", "general"])
    splitter = {"kind": sk}
    if sk == "lineage":
        splitter["options"] = {s: r.choice(MODES) for s in species if r.random() < 0.7}
        splitter["options"]["volume"] = r.choice(["binomial", "binomial", "perfect", "duplicate"])
        if r.random() < 0.3:
            splitter["options"]["default"] = r.choice(MODES)
        splitter["noise"] = r.choice([0.0, 0.2, 0.5, 0.9])
    elif sk == "general":
        splitter["options"] = {"perfect": [s for s in species if r.random() < 0.3]}
        splitter["options"]["duplicate"] = [s for s in species if s not in splitter["options"]["perfect"] and r.random() < 0.3]
        splitter["noise"] = r.choice([0.0, 0.1, 0.3])
        splitter["earlier_options"] = []
        for _ in range(r.choice([0, 0, 1, 2])):
            perf = [s for s in species if r.random() < 0.5]
            splitter["earlier_options"].append({"perfect": perf, "duplicate": [s for s in species if s not in perf and r.random() < 0.5]})
    division2 = None
    splitter2 = None
    if dk == "rule_time" and "noise" not in division and sk == "lineage" and r.random() < 0.5:
        # a second division mechanism (an event) with its own, different splitter
        division2 = {"kind": "event", "k": netgen.nice(r.uniform(1.0, 3.0) / horizon)}
        opts2 = {s: r.choice(MODES) for s in species}
        for s in species:      # make it differ from the rule's splitter on every species
            m1 = splitter["options"].get(s, splitter["options"].get("default", "binomial"))
            opts2[s] = r.choice([x for x in MODES if x != m1])
        opts2["volume"] = r.choice(["binomial", "perfect"])
        splitter2 = {"kind": "lineage", "options": opts2, "noise": r.choice([0.0, 0.3])}
    # a duplicated volume never shrinks: with a volume-based division criterion the daughters would divide at birth for ever
    if sk == "lineage" and splitter["options"].get("volume") == "duplicate" and dk in ("rule_volume", "rule_general", "rule_deltav"):
        splitter["options"]["volume"] = "binomial"
    return {"model": m, "growth": growth, "division": division, "death": death, "splitter": splitter, "dt": dt, "npts": npts,
            "division2": division2, "splitter2": splitter2}


def build_splitter(lm, M):
    from bioscrape.simulator import PerfectBinomialVolumeSplitter, GeneralVolumeSplitter
    from bioscrape.lineage import LineageVolumeSplitter
    sp = lm["splitter"]
    if sp["kind"] == "perfect_binomial":
        return PerfectBinomialVolumeSplitter()
    if sp["kind"] == "general":
        v = GeneralVolumeSplitter()
        for prior in sp.get("earlier_options", []):
            # the splitter is configured more than once: only the last configuration counts
            v.py_set_partitioning({k: list(x) for k, x in prior.items()}, M)
            v.py_set_partition_noise(0.05)
        v.py_set_partitioning({k: list(x) for k, x in sp["options"].items()}, M)
        v.py_set_partition_noise(sp["noise"])
        return v
    return LineageVolumeSplitter(M, options=dict(sp["options"]), partition_noise=sp["noise"])


def build_lineage_model(lm, with_division=True):
    """LineageModel with growth / division / death as described."""
    from bioscrape.lineage import LineageModel
    m = lm["model"]
    M = LineageModel(species=list(m["species"]), reactions=[rm.reaction_tuple(x) for x in m["reactions"]],
                     parameters=[(k, v) for k, v in m["params"].items()],
                     rules=[rm.rule_tuple(x) for x in m.get("rules", [])],
                     initial_condition_dict=dict(m["init"]), initialize_model=False)
    g = lm["growth"]
    if g["kind"] == "rule_linear":
        d = {"growth_rate": g["rate"]}
        if "noise" in g:
            d["noise"] = g["noise"]
        M.create_volume_rule("linear", d)
    elif g["kind"] == "rule_multiplicative":
        d = {"growth_rate": g["rate"]}
        if "noise" in g:
            d["noise"] = g["noise"]
        M.create_volume_rule("multiplicative", d)
    elif g["kind"] == "rule_ode":
        M.create_volume_rule("ode", {"equation": f"{g['rate']!r}*volume"})
    elif g["kind"] == "rule_assignment":
        M.create_volume_rule("assignment", {"equation": f"1 + {g['rate']!r}*t"})
    elif g["kind"] == "event_linear":
        M.create_volume_event("linear volume", {"growth_rate": g["rate"]}, "general", {"rate": repr(g["k"])})
    elif g["kind"] == "event_multiplicative":
        M.create_volume_event("multiplicative volume", {"growth_rate": g["rate"]}, "general", {"rate": repr(g["k"])})
    elif g["kind"] == "event_general":
        M.create_volume_event("general volume", {"equation": f"volume + {g['rate']!r}"}, "general", {"rate": repr(g["k"])})
    vsplit = None
    dv = lm["division"]
    if with_division and dv is not None:
        vsplit = build_splitter(lm, M)
        if dv["kind"] == "rule_time":
            d = {"threshold": dv["threshold"]}
            if "noise" in dv:
                d["noise"] = dv["noise"]
            M.create_division_rule("time", d, vsplit)
        elif dv["kind"] == "rule_volume":
            d = {"threshold": dv["threshold"]}
            if "noise" in dv:
                d["noise"] = dv["noise"]
            M.create_division_rule("volume", d, vsplit)
        elif dv["kind"] == "rule_deltav":
            d = {"threshold": dv["threshold"]}
            if "noise" in dv:
                d["noise"] = dv["noise"]
            M.create_division_rule("deltav", d, vsplit)
        elif dv["kind"] == "rule_general":
            M.create_division_rule("general", {"equation": f"volume - {dv['threshold']!r}"}, vsplit)
        else:
            # (a volume-independent rate: a mass-action constant would scale with the ever-growing duplicated volume)
            M.create_division_event("division", {}, "general", {"rate": repr(dv["k"])}, vsplit)
        if lm.get("division2"):
            vsplit2 = build_splitter(dict(lm, splitter=lm["splitter2"]), M)
            M.create_division_event("division", {}, "general", {"rate": repr(lm["division2"]["k"])}, vsplit2)
    de = lm.get("death")
    if de:
        if de["kind"] == "event":
            M.create_death_event("death", {}, "general", {"rate": repr(de["k"])})
        else:
            M.create_death_rule("species", {"specie": de["specie"], "threshold": de["threshold"], "comp": de["comp"]})
    M.py_initialize()
    return M, vsplit


def species_mode(lm, s):
    sp = lm["splitter"]
    if sp["kind"] == "perfect_binomial":
        return "binomial"
    if sp["kind"] == "general":
        if s in sp["options"].get("perfect", []):
            return "perfect"
        if s in sp["options"].get("duplicate", []):
            return "duplicate"
        return "binomial"
    opts = sp["options"]
    return opts.get(s, opts.get("default", "binomial"))


def volume_mode(lm):
    sp = lm["splitter"]
    if sp["kind"] == "lineage":
        return sp["options"].get("volume", sp["options"].get("default", "binomial"))
    return "binomial" if sp["kind"] == "general" else "perfect"


def noise_bound(lm):
    sp = lm["splitter"]
    if sp["kind"] == "lineage":
        return sp["noise"] / 2.0 if volume_mode(lm) == "binomial" else 0.0
    if sp["kind"] == "general":
        return sp["noise"]
    return 0.0


# ------------------------------------------------------------------ partition oracle
def check_partition(lm, order, mother_row, mother_vol, d_row, e_row, vd, ve, bad, brecs=None):
    """Daughter states must be a legal partition of the mother's state."""
    vm = volume_mode(lm)
    tol = 1e-12 * max(1.0, mother_vol)
    if vm == "duplicate":
        if abs(vd - mother_vol) > tol or abs(ve - mother_vol) > tol:
            bad("partition_volume", mode=vm, mother=mother_vol, daughters=[vd, ve])
            return False
        p = 1.0
    else:
        if abs((vd + ve) - mother_vol) > 1e-9 * mother_vol or vd <= 0 or ve <= 0:
            bad("partition_volume", mode=vm, mother=mother_vol, daughters=[vd, ve])
            return False
        p = vd / mother_vol
        nb = noise_bound(lm)
        if vm == "perfect" and abs(p - 0.5) > 1e-12:
            bad("partition_volume", mode=vm, mother=mother_vol, daughters=[vd, ve])
            return False
        if vm == "binomial" and not (0.5 - nb - 1e-12 <= p <= 0.5 + 1e-12):
            bad("partition_volume_noise_bound", fraction=p, bound=nb)
            return False
    for i, s in enumerate(order):
        mode = species_mode(lm, s)
        mo, d, e = mother_row[i], d_row[i], e_row[i]
        if mode == "duplicate":
            if d != mo or e != mo:
                bad("partition_not_duplicated", species=s, mother=mo, daughters=[d, e])
                return False
            continue
        if d + e != mo or d < 0 or e < 0 or d != int(d) or e != int(e):
            bad("partition_not_conserved", species=s, mode=mode, mother=mo, daughters=[d, e])
            return False
        if mode == "perfect" and vm != "duplicate":
            if abs(d - p * mo) > 1.0 + 1e-9:
                bad("partition_perfect_off", species=s, mother=mo, daughter=d, fraction=p)
                return False
    if brecs is not None:
        want = sorted((float(mother_row[i]), round(p, 12)) for i, s in enumerate(order)
                      if species_mode(lm, s) == "binomial" and mother_row[i] > 0)
        got = sorted((float(b[1]), round(b[2], 12)) for b in brecs if b[1] > 0)
        if want != got:
            bad("partition_binomial_arguments", expected=want, traced=got)
            return False
    return True


# ------------------------------------------------------------------ lineage run + oracle
def run_lineage(case):
    """Runs py_SimulateCellLineage. Returns dict(schnitzes=[...], recs, error)."""
    import bioscrape.random as R_
    from bioscrape.lineage import py_SimulateCellLineage
    lm = case["lm"]
    M, _ = build_lineage_model(lm)
    order = M.get_species_list()
    grid = np.array([i * lm["dt"] for i in range(lm["npts"])], dtype=float)
    R_.py_seed_random(case["bseed"])
    ks = case.get("script") or []
    R_.py_verif_script(np.array([mt64.script_value(k) for k in ks], dtype=float))
    R_.py_verif_trace_start(3_000_000, 1)
    out = {"order": order, "grid": grid, "error": None}
    try:
        lin = py_SimulateCellLineage(grid, Model=M, safe=bool(case.get("safe")))
    except Exception as e:
        out["error"] = f"{type(e).__name__}: {str(e)[:300]}"
        lin = None
    flat, dropped = R_.py_verif_trace_stop()
    R_.py_verif_script(np.zeros(0))
    out["recs"] = tr.decode(flat)
    out["dropped"] = dropped
    if lin is None:
        return out
    n = lin.py_size()
    sch = [lin.py_get_schnitz(i) for i in range(n)]
    ids = {id(s): i for i, s in enumerate(sch)}
    cells = []
    for s in sch:
        p = s.py_get_parent()
        d1, d2 = s.py_get_daughters()
        cells.append({"time": np.array(s.py_get_time(), dtype=float), "data": np.array(s.py_get_data(), dtype=float),
                      "vol": np.array(s.py_get_volume(), dtype=float),
                      "parent": ids.get(id(p)) if p is not None else None,
                      "parent_unknown": p is not None and id(p) not in ids,
                      "daughters": [ids.get(id(d)) if d is not None else None for d in (d1, d2)],
                      "daughter_objs_unknown": any(d is not None and id(d) not in ids for d in (d1, d2))})
    out["cells"] = cells
    out["lineage_obj"] = lin
    out["model_obj"] = M
    return out


def growth_step(lm, V, dt, t):
    g = lm["growth"]
    if g["kind"] == "rule_linear":
        return V + g["rate"] * dt
    if g["kind"] == "rule_multiplicative":
        return V + V * g["rate"] * dt
    if g["kind"] == "rule_ode":
        return V + (g["rate"] * V) * dt
    if g["kind"] == "rule_assignment":
        return 1 + g["rate"] * t
    return None


def lineage_oracle(case, out, stats):
    """Protocol-free checks over the returned lineage. Returns list of violations."""
    lm = case["lm"]
    viols = []
    sig = {"division": lm["division"]["kind"], "growth": lm["growth"]["kind"], "splitter": lm["splitter"]["kind"],
           "safe": bool(case.get("safe"))}

    def bad(cls, **d):
        if len(viols) < 4:
            viols.append({"class": cls, "signature": dict(sig), "detail": d})

    if out.get("error"):
        if "dividing too fast" in out["error"]:
            # the simulator's own explicit refusal (cells dividing within one time step): a modelling limit, not a violation
            stats["refused_dividing_too_fast"] = stats.get("refused_dividing_too_fast", 0) + 1
            return viols
        bad("lineage_simulation_raised", error=out["error"])
        return viols
    cells = out["cells"]
    grid = out["grid"]
    order = out["order"]
    model = lm["model"]
    perm = [order.index(s) for s in model["species"]]
    lat = pathinv.lattice_for(model, "ssa")
    dt = lm["dt"]
    stats["cells"] = stats.get("cells", 0) + len(cells)
    roots = [i for i, c in enumerate(cells) if c["parent"] is None]
    seen = set()
    # tree structure
    for i, c in enumerate(cells):
        if c["parent_unknown"] or c["daughter_objs_unknown"]:
            bad("link_to_a_cell_outside_the_lineage", cell=i)
            return viols
        d1, d2 = c["daughters"]
        if (d1 is None) != (d2 is None):
            bad("single_daughter", cell=i)
            return viols
        if d1 is not None:
            if d1 == d2:
                bad("daughters_identical", cell=i)
                return viols
            for d in (d1, d2):
                if cells[d]["parent"] != i:
                    bad("links_not_mutual", mother=i, daughter=d, daughter_parent=cells[d]["parent"])
                    return viols
        if c["parent"] is not None and i not in cells[c["parent"]]["daughters"]:
            bad("links_not_mutual", cell=i, parent=c["parent"], parent_daughters=cells[c["parent"]]["daughters"])
            return viols
    stack = list(roots)
    while stack:
        i = stack.pop()
        if i in seen:
            bad("cell_reached_twice", cell=i)
            return viols
        seen.add(i)
        stack.extend(d for d in cells[i]["daughters"] if d is not None)
    if len(seen) != len(cells):
        bad("cells_not_reachable_from_a_root", unreachable=len(cells) - len(seen))
        return viols
    gridset = {float(t): k for k, t in enumerate(grid)}
    ndiv = 0
    for i, c in enumerate(cells):
        t, X, V = c["time"], c["data"], c["vol"]
        n = len(t)
        if not (n == X.shape[0] == len(V)) or n == 0:
            bad("cell_arrays_inconsistent", cell=i, n_time=n, n_rows=int(X.shape[0]), n_vol=len(V))
            return viols
        # time axis = contiguous slice of the grid
        k0 = gridset.get(float(t[0]))
        if k0 is None or k0 + n > len(grid) or not np.array_equal(t, grid[k0:k0 + n]):
            bad("time_axis_not_a_grid_slice", cell=i, times=t[:6].tolist())
            return viols
        if np.any(V <= 0) or not np.all(np.isfinite(V)):
            k = int(np.argwhere(~(V > 0))[0][0])
            bad("row_without_positive_volume", cell=i, row=k, time=float(t[k]), volume=float(V[k]), state=X[k].tolist(),
                rows=n, is_root=c["parent"] is None)
            return viols
        Xp = X[:, perm]
        if not np.array_equal(Xp, np.rint(Xp)) or np.any(Xp < 0):
            bad("row_not_a_count_vector", cell=i, row=int(np.argwhere((Xp != np.rint(Xp)) | (Xp < 0))[0][0]))
            return viols
        for k in range(n - 1):
            if not lat.member(Xp[k + 1] - Xp[k]):
                bad("row_was_not_simulated", cell=i, row=k + 1, time=float(t[k + 1]), previous=Xp[k].tolist(),
                    this=Xp[k + 1].tolist(), reason="change is not a combination of reaction stoichiometries")
                return viols
        stats["lineage_rows"] = stats.get("lineage_rows", 0) + n
        # growth law between rows (deterministic volume rules): vols[k+1] = rule(vols[k]) for k >= 1
        g = lm["growth"]
        if g["kind"].startswith("rule") and "noise" not in g and n >= 3:
            for k in range(1, n - 1):
                want = growth_step(lm, V[k], dt, t[k])
                if want is not None and not rm.close(want, V[k + 1], 1e-9):
                    bad("volume_not_following_the_growth_rule", cell=i, row=k + 1, volume=float(V[k + 1]), expected=float(want),
                        previous=float(V[k]))
                    return viols
            if n >= 2 and g["kind"] != "rule_assignment" and not rm.close(V[0], V[1], 1e-12) and \
                    not rm.close(growth_step(lm, V[0], dt, t[0]), V[1], 1e-9):
                bad("volume_not_following_the_growth_rule", cell=i, row=1, volume=float(V[1]), previous=float(V[0]))
                return viols
        elif g["kind"].startswith("event") and np.any(np.diff(V) < -1e-12):
            bad("volume_decreased", cell=i)
            return viols
        # root starts from the model's initial condition
        if c["parent"] is None:
            x0 = [float(model["init"].get(s, 0)) for s in model["species"]]
            if Xp[0].tolist() != x0 or V[0] != 1.0:
                bad("root_does_not_start_from_the_initial_state", row0=Xp[0].tolist(), init=x0, volume=float(V[0]))
                return viols
        d1, d2 = c["daughters"]
        if d1 is not None:
            ndiv += 1
            for d in (d1, d2):
                if cells[d]["time"][0] != t[-1]:
                    bad("daughter_does_not_start_at_division_time", mother=i, daughter=d, mother_end=float(t[-1]),
                        daughter_start=float(cells[d]["time"][0]))
                    return viols
            args = (model["species"], Xp[-1], float(V[-1]), cells[d1]["data"][0][perm], cells[d2]["data"][0][perm],
                    float(cells[d1]["vol"][0]), float(cells[d2]["vol"][0]))
            if lm.get("division2"):
                # which mechanism fired? the time rule fires as soon as the cell's age reaches the threshold (the detection
                # instant is one step before the recorded last row); before that only the event can have divided the cell
                th = lm["division"]["threshold"]
                age_last = float(t[-1] - t[0])
                lm_rule, lm_event = lm, dict(lm, splitter=lm["splitter2"])
                if age_last < th - 1e-9:
                    cands, trig = [lm_event], "event"
                elif age_last - dt >= th - 1e-9 and n >= 2:
                    cands, trig = [lm_rule], "rule"
                else:
                    cands, trig = [lm_rule, lm_event], "ambiguous"
                stats["division_trigger_" + trig] = stats.get("division_trigger_" + trig, 0) + 1
                problems = []
                ok = False
                for cand in cands:
                    tmp = []
                    if check_partition(cand, *args, lambda cls, **d: tmp.append((cls, d))):
                        ok = True
                        break
                    problems.append(tmp)
                if not ok:
                    cls, d = problems[0][0]
                    d = dict(d)
                    d["mother_count"] = d.pop("mother", None)
                    bad(cls, mother_cell=i, trigger=trig, **d)
                    return viols
            else:
                ok = check_partition(lm, *args, bad)
                if not ok:
                    viols[-1]["detail"]["mother"] = i
                    return viols
    stats["divisions"] = stats.get("divisions", 0) + ndiv
    # traced binomial draws: every B record must carry a probability equal to some daughter's volume fraction (protocol-free form)
    return viols


def lineage_digest(out):
    h = hashlib.sha256()
    if out.get("error"):
        h.update(out["error"].encode())
    for c in out.get("cells", []):
        h.update(c["time"].tobytes() + c["data"].tobytes() + c["vol"].tobytes())
        h.update(repr((c["parent"], c["daughters"])).encode())
    return h.hexdigest()


# ------------------------------------------------------------------ single cell with general rules (C09 lineage mode)
def run_single_cell_rules(case, stats):
    """C09 lineage mode: the case's plain model (reactions + rules) as a LineageModel with a benign growth rule, simulated by
    py_SimulateSingleCell; returns (raw dict in the ssa-engine shape, violations)."""
    import bioscrape.random as R_
    from bioscrape.lineage import LineageModel, LineageSSASimulator, LineageCSimInterface, SafeLineageCSimInterface, LineageVolumeCellState
    m = case["model"]
    grid = np.array(case["grid"], dtype=float)
    viols = []
    M = LineageModel(species=list(m["species"]), reactions=[rm.reaction_tuple(x) for x in m["reactions"]],
                     parameters=[(k, v) for k, v in m["params"].items()], rules=[rm.rule_tuple(x) for x in m.get("rules", [])],
                     initial_condition_dict=dict(m["init"]), initialize_model=False)
    M.create_volume_rule("linear", {"growth_rate": 0.01})
    de = case.get("lin_death")
    if de:
        M.create_death_rule("species", {"specie": de["specie"], "threshold": de["threshold"], "comp": de["comp"]})
    M.py_initialize()
    for i in range(case.get("reinit", 0) or 0):      # edit history: un-initialise by an unused parameter, initialise again
        M.create_parameter("zz_unused_%d" % i, 1.0)
        M.py_initialize()
    R_.py_seed_random(case["bseed"])
    raw = {"species_order": M.get_species_list(), "recs": [], "error": None, "rows": None}
    R_.py_verif_trace_start(3_000_000, 1)
    try:
        sim = LineageSSASimulator()
        res = sim.py_SimulateSingleCell(grid, Model=M, safe=bool(case.get("safe")))
        flat, dropped = R_.py_verif_trace_stop()
        raw["recs"] = tr.decode(flat)
        raw["dropped"] = dropped
        raw["rows"] = np.array(res.py_get_result(), dtype=float)
        raw["vols"] = np.array(res.py_get_volume(), dtype=float)
        raw["times"] = np.array(res.py_get_timepoints(), dtype=float)
    except Exception as e:
        R_.py_verif_trace_stop()
        raw["error"] = f"{type(e).__name__}: {str(e)[:200]}"
        viols.append({"class": "simulator_raised", "signature": {"mode": "lineage"}, "detail": {"error": raw["error"]}})
        return raw, viols
    n = raw["rows"].shape[0]
    if de:
        stats["lineage_cells_with_death_rule"] = stats.get("lineage_cells_with_death_rule", 0) + 1
        if n < len(grid):
            stats["lineage_cells_died"] = stats.get("lineage_cells_died", 0) + 1
        if n < 1 or n > len(grid) or not np.array_equal(raw["times"], grid[:n]):
            viols.append({"class": "time_axis_not_a_prefix_of_the_grid", "signature": {"mode": "lineage"},
                          "detail": {"rows": n, "requested": len(grid)}})
    elif n != len(grid) or not np.array_equal(raw["times"], grid):
        viols.append({"class": "rows_missing_without_division", "signature": {"mode": "lineage"},
                      "detail": {"rows": n, "requested": len(grid)}})
    if np.any(raw["vols"] <= 0):
        k = int(np.argwhere(raw["vols"] <= 0)[0][0])
        viols.append({"class": "row_without_positive_volume", "signature": {"mode": "lineage"},
                      "detail": {"row": k, "time": float(grid[min(k, len(grid) - 1)]), "state": raw["rows"][k].tolist()}})
    stats["lineage_single_cells"] = stats.get("lineage_single_cells", 0) + 1
    return raw, viols


# ------------------------------------------------------------------ pickling probes (C17 lineage part)
def lineage_summary(out):
    return [(c["time"].tolist(), c["data"].tolist(), c["vol"].tolist(), c["parent"], c["daughters"]) for c in out["cells"]]


def simulate_with_model(M, lm, bseed, safe=False):
    import bioscrape.random as R_
    from bioscrape.lineage import py_SimulateCellLineage
    grid = np.array([i * lm["dt"] for i in range(lm["npts"])], dtype=float)
    R_.py_seed_random(bseed)
    try:
        lin = py_SimulateCellLineage(grid, Model=M, safe=safe)
    except ValueError as e:
        if "dividing too fast" in str(e):
            return [("refused: cells dividing within one time step",)], None      # the simulator's explicit refusal
        raise
    n = lin.py_size()
    sch = [lin.py_get_schnitz(i) for i in range(n)]
    ids = {id(s): i for i, s in enumerate(sch)}
    cells = []
    for s in sch:
        p = s.py_get_parent()
        d1, d2 = s.py_get_daughters()
        cells.append((np.array(s.py_get_time()).tolist(), np.array(s.py_get_data()).tolist(), np.array(s.py_get_volume()).tolist(),
                      ids.get(id(p)) if p is not None else None, [ids.get(id(d)) if d is not None else None for d in (d1, d2)]))
    return cells, lin


def results_pickle_probe(out, bad, stats):
    """Pickle round trip of the result objects of a real lineage simulation: arrays equal, links re-established inside the
    restored object graph."""
    lin = out.get("lineage_obj")
    if lin is None:
        return
    n = lin.py_size()
    if n == 0:
        return
    for proto in (2, 4, 5):
        try:
            lin2 = pickle.loads(pickle.dumps(lin, protocol=proto))
        except Exception as e:
            bad("result_pickle_failed", object="Lineage", protocol=proto, error=f"{type(e).__name__}: {str(e)[:200]}")
            return
        if lin2.py_size() != n:
            bad("pickled_lineage_differs", what="number of schnitzes", original=n, restored=lin2.py_size())
            return
        s1 = [lin.py_get_schnitz(i) for i in range(n)]
        s2 = [lin2.py_get_schnitz(i) for i in range(n)]
        ids1 = {id(s): i for i, s in enumerate(s1)}
        ids2 = {id(s): i for i, s in enumerate(s2)}
        for i in range(n):
            a, b = s1[i], s2[i]
            for name, f in (("time", "py_get_time"), ("data", "py_get_data"), ("volume", "py_get_volume")):
                if not np.array_equal(np.array(getattr(a, f)()), np.array(getattr(b, f)())):
                    bad("pickled_lineage_differs", what=name, schnitz=i, protocol=proto)
                    return
            pa, pb = a.py_get_parent(), b.py_get_parent()
            ia = ids1.get(id(pa)) if pa is not None else None
            ib = ids2.get(id(pb)) if pb is not None else None
            if ia != ib or (pb is not None and id(pb) not in ids2):
                bad("pickled_lineage_links_broken", what="parent", schnitz=i, original=ia, restored=ib, protocol=proto)
                return
            da = [ids1.get(id(d)) if d is not None else None for d in a.py_get_daughters()]
            db = [ids2.get(id(d)) if d is not None else None for d in b.py_get_daughters()]
            if da != db or any(d is not None and id(d) not in ids2 for d in b.py_get_daughters()):
                bad("pickled_lineage_links_broken", what="daughters", schnitz=i, original=da, restored=db, protocol=proto)
                return
        stats["result_pickles"] = stats.get("result_pickles", 0) + 1
    # a single schnitz with relatives, and cell states
    from bioscrape.lineage import LineageVolumeCellState
    s = lin.py_get_schnitz(n - 1)
    try:
        s2 = pickle.loads(pickle.dumps(s))
        if not np.array_equal(np.array(s.py_get_data()), np.array(s2.py_get_data())) or \
                (s.py_get_parent() is None) != (s2.py_get_parent() is None):
            bad("pickled_schnitz_differs", schnitz=n - 1)
            return
        if s2.py_get_parent() is not None and not any(d is s2 for d in s2.py_get_parent().py_get_daughters()):
            bad("pickled_lineage_links_broken", what="restored schnitz is not among its restored parent's daughters")
            return
        row = np.array(s.py_get_data())[-1].copy()
        cs = LineageVolumeCellState(v0=1.25, t0=0.5, state=row, volume=float(np.array(s.py_get_volume())[-1]),
                                    time=float(np.array(s.py_get_time())[-1]))
        cs2 = pickle.loads(pickle.dumps(cs))
        if not np.array_equal(np.array(cs2.py_get_state()), row) or cs2.py_get_volume() != cs.py_get_volume() or \
                cs2.py_get_time() != cs.py_get_time() or cs2.py_get_initial_volume() != 1.25 or cs2.py_get_initial_time() != 0.5:
            bad("pickled_cell_state_differs")
            return
        # division / death flags are part of a cell's state too (a pending division decides what the next simulation does)
        # birth / current values including the boundary ones (a cell observed at time 0 that was born earlier, volume 1, ...)
        for k_, (dv, dd) in enumerate(((-1, -1), (0, -1), (2, -1), (-1, 1))):
            v0_, t0_, vol_, t_ = ((1.25, 0.5, 2.0, 3.5), (1.25, -2.5, 2.0, 0.0), (1.0, 0.0, 1.0, 0.0), (2.0, 3.0, 2.0, 3.0))[k_]
            cf = LineageVolumeCellState(v0=v0_, t0=t0_, state=row.copy(), volume=vol_, time=t_, divided=dv, dead=dd)
            for restored in (pickle.loads(pickle.dumps(cf, protocol=2)), pickle.loads(pickle.dumps(cf, protocol=5)), copy.deepcopy(cf),
                             pickle.loads(pickle.dumps(pickle.loads(pickle.dumps(cf))))):
                ga, gb = cf.__getstate__(), restored.__getstate__()
                same = len(ga) == len(gb) and all((np.array_equal(np.asarray(x), np.asarray(y))) for x, y in zip(ga, gb))
                getters = ("py_get_time", "py_get_volume", "py_get_initial_time", "py_get_initial_volume")
                va, vb = [getattr(cf, g)() for g in getters], [getattr(restored, g)() for g in getters]
                if not same or va != vb or va != [t_, vol_, t0_, v0_]:
                    bad("pickled_cell_state_differs", original=[np.asarray(x).tolist() for x in ga],
                        restored=[np.asarray(x).tolist() for x in gb], getters_original=va, getters_restored=vb,
                        constructed_with=[t_, vol_, t0_, v0_])
                    return
        cs3 = copy.deepcopy(cs)
        cs3.py_get_state()[0] += 1
        if np.array(cs.py_get_state())[0] != row[0]:
            bad("copied_cell_state_shares_its_array")
            return
        stats["cell_state_pickles"] = stats.get("cell_state_pickles", 0) + 1
    except Exception as e:
        bad("result_pickle_failed", object="Schnitz/LineageVolumeCellState", error=f"{type(e).__name__}: {str(e)[:200]}")


def run_model_restart_case(case, stats):
    """C17 lineage stratum: a LineageModel goes through a sequence of restarts (pickle / deepcopy) interleaved with
    simulations and value edits; after each restart original and restored must produce identical lineages from the same seed and
    must be independent. Returns (violations, digest)."""
    import bioscrape.random as R_
    lm = case["lm"]
    viols = []
    sig = {"stratum": "lineage"}

    def bad(cls, **d):
        if len(viols) < 3:
            viols.append({"class": cls, "signature": dict(sig, **{k: d[k] for k in ("restart", "independence") if k in d}), "detail": d})

    h = hashlib.sha256()
    live, _ = build_lineage_model(lm)
    params = dict(lm["model"]["params"])
    init = dict(lm["model"]["init"])
    r = seeds.rng(case["pseed"], "lin")
    last_out = None
    for i, op in enumerate(case["ops"]):
        if viols:
            break
        stats["op_" + op[0]] = stats.get("op_" + op[0], 0) + 1
        try:
            if op[0] == "simulate":
                cells, lin = simulate_with_model(live, lm, op[1], safe=bool(op[2]))
                h.update(repr(cells).encode())
                if lin is not None:
                    last_out = {"lineage_obj": lin}
            elif op[0] == "initialize":
                live.py_initialize()
            elif op[0] == "set_parameter":
                names = sorted(params)
                if names:
                    p_ = names[op[1] % len(names)]
                    live.set_parameter(p_, op[2])
                    params[p_] = op[2]
            elif op[0] == "set_species":
                s_ = lm["model"]["species"][op[1] % len(lm["model"]["species"])]
                live.set_species({s_: op[2]})
                init[s_] = op[2]
            elif op[0] in ("restart_pickle", "restart_deepcopy"):
                how = "pickle" if op[0] == "restart_pickle" else "deepcopy"
                try:
                    restored = pickle.loads(pickle.dumps(live, protocol=op[1])) if how == "pickle" else copy.deepcopy(live)
                except Exception as e:
                    bad("restart_failed", restart=how, error=f"{type(e).__name__}: {str(e)[:300]}")
                    break
                # same values
                da = {k: float(v) for k, v in live.get_species_dictionary().items()}
                db = {k: float(v) for k, v in restored.get_species_dictionary().items()}
                pa = {k: float(v) for k, v in live.get_parameter_dictionary().items()}
                pb = {k: float(v) for k, v in restored.get_parameter_dictionary().items()}
                if da != db or pa != pb:
                    bad("restored_model_differs", restart=how, what="species / parameter values", a=[da, pa], b=[db, pb])
                    break
                if not np.array_equal(np.array(live.py_get_update_array()), np.array(restored.py_get_update_array())):
                    bad("restored_model_differs", restart=how, what="stoichiometry")
                    break
                if (live.py_get_event_counts(), live.py_get_rule_counts()) != (restored.py_get_event_counts(), restored.py_get_rule_counts()):
                    bad("restored_model_differs", restart=how, what="event / rule counts",
                        a=[live.py_get_event_counts(), live.py_get_rule_counts()],
                        b=[restored.py_get_event_counts(), restored.py_get_rule_counts()])
                    break
                # same behaviour from the same seed (growth, division, death, partitioning all included)
                sd = seeds.bioscrape_seed(case["pseed"], "cmp", i)
                ca, _ = simulate_with_model(live, lm, sd)
                cb, _ = simulate_with_model(restored, lm, sd)
                if ca != cb:
                    k = next((j for j in range(min(len(ca), len(cb))) if ca[j] != cb[j]), min(len(ca), len(cb)))
                    bad("restored_model_differs", restart=how, what="lineage simulated from the same seed", cells=[len(ca), len(cb)],
                        first_differing_cell=k)
                    break
                stats["restarts"] = stats.get("restarts", 0) + 1
                # independence
                if op[2] != "none" and params:
                    names = sorted(params)
                    p_ = names[0]
                    edited, other = (restored, live) if op[3] == "restored" else (live, restored)
                    v = params[p_] * 1.5 + 0.25
                    before = {k: float(x) for k, x in other.get_parameter_dictionary().items()}
                    edited.set_parameter(p_, v)
                    edited.set_species({lm["model"]["species"][0]: init[lm["model"]["species"][0]] + 2})
                    after = {k: float(x) for k, x in other.get_parameter_dictionary().items()}
                    sp_after = {k: float(x) for k, x in other.get_species_dictionary().items()}
                    if before != after or sp_after != da:
                        bad("copy_not_independent", restart=how, independence="set_parameter", before=before, after=after)
                        break
                    cc, _ = simulate_with_model(other, lm, sd)
                    if cc != ca:
                        bad("copy_not_independent", restart=how, independence="set_parameter", what="seeded lineage of the untouched object changed")
                        break
                    stats["independence_checks"] = stats.get("independence_checks", 0) + 1
                    if op[3] == "restored":
                        params[p_] = v
                        init[lm["model"]["species"][0]] = init[lm["model"]["species"][0]] + 2
                live = restored
        except Exception as e:
            import traceback
            tb = traceback.extract_tb(e.__traceback__)
            last = tb[-1]
            if ("bioscrape" in last.filename or last.filename.endswith(".pyx")) and "/verif/" not in last.filename:
                bad("operation_raised", op=op[0], error=f"{type(e).__name__}: {str(e)[:300]}")
                break
            raise
    if not viols and last_out is not None:
        results_pickle_probe(last_out, bad, stats)
    return viols, h.hexdigest()
