"""Decoder for the H1 trace buffer of bioscrape.random (see DESIGN.md 3.3).

flat array of records [code, n, payload...]:
 1 U value | 2 E Lambda value | 3 D n Lambda choice w[0..n) | 4 N mean std value | 5 G k theta value
 6 B N p value | 7 C modulo value | 8 ER k theta value | 9 AB n p value
"""
KINDS = {1: "U", 2: "E", 3: "D", 4: "N", 5: "G", 6: "B", 7: "C", 8: "ER", 9: "AB"}


def decode(flat):
    out = []
    i = 0
    n = len(flat)
    fl = flat.tolist() if hasattr(flat, "tolist") else list(flat)
    while i < n:
        code = int(fl[i])
        m = int(fl[i + 1])
        p = fl[i + 2:i + 2 + m]
        i += 2 + m
        k = KINDS[code]
        if k == "D":
            out.append(("D", int(p[0]), p[1], int(p[2]), p[3:]))
        elif k == "U":
            out.append(("U", p[0]))
        elif k == "E":
            out.append(("E", p[0], p[1]))
        elif k == "C":
            out.append(("C", int(p[0]), int(p[1])))
        else:
            out.append((k, p[0], p[1], p[2]))
    return out


class Tape:
    """Sequential reader over decoded records."""

    def __init__(self, recs):
        self.recs = recs
        self.pos = 0

    def peek(self):
        return self.recs[self.pos] if self.pos < len(self.recs) else None

    def next(self, kind=None):
        if self.pos >= len(self.recs):
            return None
        r = self.recs[self.pos]
        if kind is not None and r[0] != kind:
            return None
        self.pos += 1
        return r

    def remaining(self):
        return len(self.recs) - self.pos
