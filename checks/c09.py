"""C09 - rules hold on every reported row and fire on their schedule (DESIGN.md 4.5)."""
import copy
import hashlib

import numpy as np

from simkit import netgen, refmodel as rm, seeds, ssaengine as eng
from checks import c06

PROPERTY = "C09"
LEVEL = "exploration"
RULE = ("case = seeded network + rule set chained in dependency order (additive, assignment to species / to a rate parameter, "
        "ode; frequencies repeated / start / dt / a grid time) + observer rules (dt counter, marker at a grid time, ode ramp) x "
        "{deterministic, SSA plain, SSA safe, volume SSA, delay SSA, lineage single cell} x seeded/scripted stream (burst, stall, "
        "absorb); row oracles (rules hold on every row; marker untouched before / set after its time; counter +1 and ode "
        "+rate*dt per elapsed grid step) + lock-step of every traced propensity vector against closed forms at the "
        "rule-updated state and parameters; non-trivial = run whose rules changed at least one reported value; distinct = "
        "distinct (mode, rule kinds, per-interval event signature)")
ASSUMPTIONS = [
    "grids have binary-representable steps (k/64) so that accumulated simulator clocks hit scheduled times exactly",
    "'per elapsed step' is counted from the second row on; the row at a scheduled time itself is unconstrained",
    "repeated rules depend only on species, constant parameters and earlier repeated rules (so they can be re-evaluated on a row)",
    "rule-assigned species are never reactants or products",
]
COMPONENTS = c06.COMPONENTS
TIERS = {
    "quick": {"cases": 16000, "block": 200, "case_timeout": 30.0},
    "thorough": {"cases": 400000, "block": 400, "case_timeout": 60.0},
}
MODES = ["det", "det", "ssa", "ssa", "ssa_safe", "volume", "volume", "delay", "delay", "lineage", "lineage"]


def add_rules(r, model, grid, det, lineage=False):
    """Adds rule species / parameters and the rule list. Returns the list of observer descriptions."""
    species = list(model["species"])
    rules = []
    obs = []
    dt = grid[1] - grid[0]
    deps = list(species)
    if r.random() < 0.6:
        src = [s for s in species if r.random() < 0.7] or [species[0]]
        model["species"].append("Tot")
        model["init"]["Tot"] = 0
        rules.append({"type": "additive", "target": "Tot", "expr": src, "freq": "repeated"})
        deps.append("Tot")
        obs.append({"kind": "repeated_species", "target": "Tot"})
    if r.random() < 0.6:
        a = r.choice(deps)
        model["params"]["pY"] = netgen.nice(r.uniform(0.1, 3.0))
        expr = r.choice([
            ["+", ["*", ["num", 2.0], ["sp", a]], ["par", "pY"]],
            ["*", ["par", "pY"], ["sp", a]],
            ["/", ["sp", a], ["+", ["sp", a], ["par", "pY"]]],
            ["max", ["-", ["sp", a], ["num", 2.0]], ["num", 0.0]],
        ])
        model["species"].append("Y")
        model["init"]["Y"] = 0
        rules.append({"type": "assignment", "target": "Y", "expr": expr, "freq": "repeated"})
        deps.append("Y")
        obs.append({"kind": "repeated_species", "target": "Y"})
    if not lineage and seeds.rng(r.getrandbits(32), "volrule").random() < 0.4:
        # a repeated rule that reads the cell volume (the given number in volume mode, 1 where no volume is in play)
        a = r.choice(deps)
        model["species"].append("Wv")
        model["init"]["Wv"] = 0
        rules.append({"type": "assignment", "target": "Wv", "expr": ["+", ["*", ["num", 2.0], ["vol"]], ["sp", a]], "freq": "repeated"})
        obs.append({"kind": "repeated_species", "target": "Wv"})
    # a rule-assigned rate parameter feeding a mass-action reaction
    ma = [i for i, x in enumerate(model["reactions"]) if x["type"] == "massaction"]
    if ma and r.random() < 0.7:
        i = r.choice(ma)
        a = r.choice(deps)
        k0 = netgen.rate(r, 0.1, 5.0)
        expr = ["/", ["*", ["num", k0], ["+", ["num", 1.0], ["sp", a]]], ["+", ["num", 2.0], ["sp", a]]]
        model["params"]["kr"] = k0
        model["reactions"][i]["pd"] = {"k": "kr"}
        rules.append({"type": "assignment", "target": "kr", "expr": expr, "freq": "repeated"})
        obs.append({"kind": "repeated_param", "target": "kr", "reaction": i})
    # a Hill reaction reading a rule-assigned species
    hill = [i for i, x in enumerate(model["reactions"]) if x["type"] in netgen.HILLS]
    gate = [d for d in deps if d in ("Tot", "Y")]
    if hill and gate and r.random() < 0.7:
        model["reactions"][r.choice(hill)]["pd"]["s1"] = r.choice(gate)
    if not det:
        inner = [g for g in grid[1:-1]]
        if ma and inner and r.random() < 0.5:
            # a rate constant switched at a grid time
            i = r.choice(ma)
            if model["reactions"][i]["pd"].get("k") != "kr":
                T = r.choice(inner)
                v1, v2 = netgen.rate(r, 0.1, 5.0), r.choice([0.0, netgen.rate(r, 0.1, 5.0)])
                model["params"]["ksw"] = v1
                model["reactions"][i]["pd"] = {"k": "ksw"}
                rules.append({"type": "assignment", "target": "ksw", "expr": ["num", v2], "freq": T})
                obs.append({"kind": "switch_param", "target": "ksw", "T": T})
        if r.random() < 0.7:
            model["species"].append("cnt")
            model["init"]["cnt"] = 0
            rules.append({"type": "assignment", "target": "cnt", "expr": ["+", ["sp", "cnt"], ["num", 1.0]], "freq": "dt"})
            obs.append({"kind": "counter", "target": "cnt"})
        if inner and r.random() < 0.7:
            T = r.choice(inner)
            model["species"].append("mk")
            model["init"]["mk"] = 0
            rules.append({"type": "assignment", "target": "mk", "expr": ["num", 1.0], "freq": T})
            obs.append({"kind": "marker", "target": "mk", "T": T})
        if inner and r.random() < 0.6:
            # a non-idempotent scheduled rule: a snapshot of a reacting species taken at T must stay what it was at T
            T = r.choice(inner)
            a = r.choice(species)
            model["species"].append("snap")
            model["init"]["snap"] = 0
            rules.append({"type": "assignment", "target": "snap", "expr": ["+", ["sp", a], ["num", 1.0]], "freq": T})
            obs.append({"kind": "snapshot", "target": "snap", "T": T, "source": a})
        if r.random() < 0.6:
            c = netgen.nice(r.uniform(0.1, 4.0))
            model["species"].append("z")
            model["init"]["z"] = 0
            use_par = r.random() < 0.5
            if use_par:
                model["params"]["cz"] = c
            rules.append({"type": "ode", "target": "z", "expr": ["par", "cz"] if use_par else ["num", c], "freq": "dt"})
            obs.append({"kind": "ode", "target": "z", "rate": c})
        if r.random() < 0.4:
            model["species"].append("st")
            model["init"]["st"] = 3
            rules.append({"type": "assignment", "target": "st", "expr": ["num", 7.0], "freq": "start"})
            obs.append({"kind": "start", "target": "st"})
    model["rules"] = rules
    return obs


def gen_case(case_seed, cfg):
    r = seeds.rng(case_seed, "c09")
    mode = r.choice(MODES)
    base_mode = {"det": "ssa", "ssa": "ssa", "ssa_safe": "ssa", "volume": "volume", "delay": "delay", "lineage": "ssa"}[mode]
    case = c06.gen_case(seeds.derive(case_seed, "base"), cfg, modes=[base_mode], delays_in_plain=False, nonuniform_p=0.0)
    case["c09_mode"] = mode
    if mode == "ssa_safe":
        case["safe"] = True
    if mode in ("det", "lineage"):
        case["script"] = []
        # (deterministic / lineage runs use their own executors below)
    if mode == "volume":
        case["vol"] = {"v0": case["vol"]["v0"]}      # volume given as a number
    if mode in ("det",):
        # deterministic integration of networks with consumers that can go negative is out of scope: mass action only
        for rx in case["model"]["reactions"]:
            if rx["type"] != "massaction" and rm.consumption(rx):
                rx["products"] = list(rx["reactants"])      # make it a pure catalyst (net zero)
    case["observers"] = add_rules(r, case["model"], case["grid"], det=(mode == "det"), lineage=(mode == "lineage"))
    if mode == "lineage":
        rl = seeds.rng(case_seed, "lin_death")
        if rl.random() < 0.5:
            # a death rule watching a reacting species or a rule target: the cell's last row is a reported row like any other
            m = case["model"]
            st = {s_: float(m["init"].get(s_, 0)) for s_ in m["species"]}
            rm.apply_rules(m, st, dict(m["params"]), 0.0, True, 1.0)
            cand = [s_ for s_ in m["species"] if s_ not in ("cnt", "mk", "snap", "z", "st")]
            sp_ = rl.choice(cand)
            if rl.random() < 0.5:
                case["lin_death"] = {"kind": "rule_species", "specie": sp_, "threshold": st[sp_] + rl.choice([1, 2, 4, 8]) - 0.5, "comp": ">"}
            else:
                case["lin_death"] = {"kind": "rule_species", "specie": sp_, "threshold": st[sp_] - rl.choice([1, 2, 4]) + 0.5, "comp": "<"}
    if any(ru["target"] in case["model"]["params"] for ru in case["model"]["rules"]) or mode in ("det", "lineage"):
        case["prelude"] = None     # a rule that assigns a parameter makes the outcome depend on earlier simulations (C08's caveat)
    elif case.get("prelude") == "det":
        case["prelude"] = "ssa"
    if mode == "det" and r.random() < 0.5:
        case["metamorphic"] = True
    return case


# ------------------------------------------------------------------ row oracles
def rows_by_name(case, raw):
    order = raw["species_order"]
    return {s: raw["rows"][:, order.index(s)] for s in case["model"]["species"]}


def repeated_rules_hold(case, raw, stats):
    model = case["model"]
    rep = [ru for ru in model["rules"] if ru.get("freq", "repeated") in ("repeated", "repeat") and ru["type"] != "ode"]
    if not rep:
        return []
    order = raw["species_order"]
    rows = raw["rows"]
    grid = case["grid"]
    vol = (case.get("vol") or {}).get("v0") if case.get("mode") == "volume" and case["c09_mode"] == "volume" else None
    viols = []
    for k in range(rows.shape[0]):
        st = {s: float(rows[k][order.index(s)]) for s in model["species"]}
        pr = dict(model["params"])
        before = dict(st)
        for ru in rep:
            rm.apply_rule(ru, st, pr, grid[k], grid[1] - grid[0], vol if vol is not None else 1.0)
        for s in st:
            if not rm.close(st[s], before[s], 1e-10, 1e-12):
                viols.append({"class": "repeated_rule_not_satisfied_on_row",
                              "signature": {"mode": case["c09_mode"]},
                              "detail": {"row": k, "time": grid[k], "species": s, "reported": before[s], "rule_value": st[s]}})
                return viols
    stats["rule_rows_checked"] = stats.get("rule_rows_checked", 0) + rows.shape[0]
    return viols


def schedule_oracles(case, raw, stats):
    viols = []
    col = rows_by_name(case, raw)
    grid = case["grid"]
    n = raw["rows"].shape[0]
    dt = grid[1] - grid[0]
    sig = {"mode": case["c09_mode"]}
    for ob in case["observers"]:
        x = col.get(ob["target"])
        if ob["kind"] == "counter":
            d = np.diff(x)[1:]
            stats["counter_steps"] = stats.get("counter_steps", 0) + len(d)
            if len(d) and not np.all(d == 1.0):
                k = int(np.argwhere(d != 1.0)[0][0]) + 1
                viols.append({"class": "dt_rule_not_once_per_step", "signature": sig,
                              "detail": {"row": k, "time": grid[k], "advance": float(d[k - 1]), "counter": x[:8].tolist()}})
        elif ob["kind"] == "marker":
            T = ob["T"]
            for k in range(n):
                if grid[k] < T and x[k] != 0.0:
                    viols.append({"class": "scheduled_rule_fired_early", "signature": sig,
                                  "detail": {"row": k, "time": grid[k], "T": T, "value": float(x[k])}})
                    break
                if grid[k] > T and x[k] != 1.0:
                    viols.append({"class": "scheduled_rule_not_in_force", "signature": sig,
                                  "detail": {"row": k, "time": grid[k], "T": T, "value": float(x[k])}})
                    break
            stats["marker_rows"] = stats.get("marker_rows", 0) + n
        elif ob["kind"] == "snapshot":
            T = ob["T"]
            after = [k for k in range(n) if grid[k] > T]
            for k in range(n):
                if grid[k] < T and x[k] != 0.0:
                    viols.append({"class": "scheduled_rule_fired_early", "signature": sig,
                                  "detail": {"row": k, "time": grid[k], "T": T, "value": float(x[k])}})
                    break
            else:
                if after:
                    stats["snapshot_rows"] = stats.get("snapshot_rows", 0) + len(after)
                    k0 = after[0]
                    src = col.get(ob["source"])
                    if x[k0] < 1.0:
                        viols.append({"class": "scheduled_rule_not_in_force", "signature": sig,
                                      "detail": {"row": k0, "time": grid[k0], "T": T, "value": float(x[k0])}})
                    elif any(x[k] != x[k0] for k in after):
                        kb = [k for k in after if x[k] != x[k0]][0]
                        viols.append({"class": "scheduled_rule_fired_again_later", "signature": sig,
                                      "detail": {"row": kb, "time": grid[kb], "T": T, "value_after_T": float(x[k0]),
                                                 "value": float(x[kb]), "source_species_there": float(src[kb])}})
                    elif case["c09_mode"] != "delay" and not case.get("script") and x[k0] != src[k0 - 1] + 1.0:
                        # (the delay simulator may deliver queued products at T itself before the rule sees the state; scripted
                        # zero waiting times put further events at exactly T, where the statement fixes no order)
                        viols.append({"class": "scheduled_rule_value_not_from_its_time", "signature": sig,
                                      "detail": {"T": T, "value": float(x[k0]), "source_at_T": float(src[k0 - 1])}})
        elif ob["kind"] == "ode":
            d = np.diff(x)[1:]
            want = ob["rate"] * dt
            stats["ode_steps"] = stats.get("ode_steps", 0) + len(d)
            if len(d) and not np.allclose(d, want, rtol=1e-9, atol=1e-12):
                k = int(np.argwhere(~np.isclose(d, want, rtol=1e-9, atol=1e-12))[0][0]) + 1
                viols.append({"class": "ode_rule_step_wrong", "signature": sig,
                              "detail": {"row": k, "advance": float(d[k - 1]), "expected": want}})
        elif ob["kind"] == "start":
            if n > 1 and not np.all(x[1:] == 7.0):
                viols.append({"class": "start_rule_not_in_force", "signature": sig, "detail": {"values": x[:5].tolist()}})
    return viols


# ------------------------------------------------------------------ deterministic executor
def run_det(case, stats):
    from bioscrape.simulator import py_simulate_model
    model = case["model"]
    grid = np.array(case["grid"], dtype=float)
    M = rm.to_bioscrape(model)
    eng.reinitialise(M, case.get("reinit", 0))
    viols = []
    try:
        res = py_simulate_model(grid, Model=M, stochastic=False, return_dataframe=False)
    except (TypeError, RuntimeError) as e:
        # e.g. a fractional Hill power of a (numerically) negative concentration: not what this property is about
        stats["det_raised"] = 1
        return {"rows": np.zeros((0, len(model["species"]))), "species_order": M.get_species_list(), "recs": []}, viols
    rows = np.array(res.py_get_result(), dtype=float)
    raw = {"rows": rows, "species_order": M.get_species_list(), "recs": []}
    if not np.all(np.isfinite(rows)):
        stats["det_failed_integration"] = 1
        return raw, viols
    viols += repeated_rules_hold(case, raw, stats)
    if case.get("metamorphic"):
        # inline every repeated parameter rule feeding a mass-action rate into a general rate: same trajectory
        m2 = copy.deepcopy(model)
        changed = False
        for ob in case["observers"]:
            if ob["kind"] == "repeated_param":
                ru = [x for x in m2["rules"] if x["target"] == ob["target"]][0]
                rx = m2["reactions"][ob["reaction"]]
                if len(rx["reactants"]) >= 3 and len(set(rx["reactants"])) < len(rx["reactants"]):
                    # bioscrape's *deterministic* mass-action form of order >= 3 ignores reactant multiplicity (a C01
                    # matter, outside this property): the inlined formula would not be the same rate law
                    continue
                rx["type"] = "general"
                rx["pd"] = {"rate": ["*", ru["expr"]] + [["sp", s] for s in rx["reactants"]]}
                m2["rules"] = [x for x in m2["rules"] if x["target"] != ob["target"]]
                changed = True
        if changed:
            M2 = rm.to_bioscrape(m2)
            try:
                res2 = py_simulate_model(grid, Model=M2, stochastic=False, return_dataframe=False)
            except (TypeError, RuntimeError):
                return raw, viols
            r2 = np.array(res2.py_get_result(), dtype=float)
            o1, o2 = M.get_species_list(), M2.get_species_list()
            stats["metamorphic_runs"] = 1
            for s in m2["species"]:
                a, b = rows[:, o1.index(s)], r2[:, o2.index(s)]
                if np.all(np.isfinite(b)) and not np.allclose(a, b, rtol=1e-4, atol=1e-6):
                    k = int(np.argwhere(~np.isclose(a, b, rtol=1e-4, atol=1e-6))[0][0])
                    viols.append({"class": "rate_not_computed_from_rule_updated_parameter",
                                  "signature": {"mode": "det"},
                                  "detail": {"species": s, "row": k, "with_rule": float(a[k]), "inlined": float(b[k])}})
                    break
    return raw, viols


def run_case(case):
    mode = case["c09_mode"]
    stats = {"mode_" + mode: 1}
    viols = []
    ref = None
    if mode == "det":
        raw, v = run_det(case, stats)
        viols += v
        dg = hashlib.sha256(np.ascontiguousarray(raw["rows"]).tobytes()).hexdigest()
    elif mode == "lineage":
        from simkit import lineage_engine as le
        raw, v = le.run_single_cell_rules(case, stats)
        viols += v
        if raw is not None and not raw.get("error"):
            viols += repeated_rules_hold(case, raw, stats)
            sraw = raw
            if case.get("lin_death") and raw["rows"].shape[0] >= 1:
                # the closing row of a cell that may have died is written at the death instant, not after a full step:
                # the per-step schedule oracles stop before it (the repeated rules above and the lock-step below include it)
                sraw = dict(raw, rows=raw["rows"][:-1])
            viols += schedule_oracles(case, sraw, stats)
            if not viols:
                from simkit import lineage_ref
                viols += lineage_ref.lockstep_single_cell(case, raw, stats)
        dg = hashlib.sha256(np.ascontiguousarray(raw["rows"]).tobytes()).hexdigest() if raw is not None and raw.get("rows") is not None else ""
    else:
        raw = eng.execute(case)
        ls = eng.lockstep(case, raw)
        stats.update(ls["stats"])
        viols += ls["violations"]
        ref = ls.get("ref")
        if not raw.get("error"):
            viols += repeated_rules_hold(case, raw, stats)
            viols += schedule_oracles(case, raw, stats)
        c06.fault_counters(case, raw, ref, stats)
        dg = eng.digest(raw)
    for ru in case["model"]["rules"]:
        key = "rule_" + ru["type"] + "_" + (str(ru.get("freq")) if ru.get("freq") in ("repeated", "dt", "start") else "time")
        stats[key] = stats.get(key, 0) + 1
    # non-trivial: some rule-target column is not constant / differs from its initial value
    nontrivial = False
    if raw is not None and raw.get("rows") is not None and len(raw["rows"]):
        order = raw["species_order"]
        for ru in case["model"]["rules"]:
            if ru["target"] in order:
                colv = raw["rows"][:, order.index(ru["target"])]
                if np.any(colv != case["model"]["init"].get(ru["target"], 0)):
                    nontrivial = True
            else:
                nontrivial = True
    kinds = sorted({ob["kind"] for ob in case["observers"]})
    sig = repr((mode, kinds, eng.event_signature(ref, case) if ref is not None else dg[:16]))
    return {"violations": viols, "stats": stats, "sig": sig, "nontrivial": nontrivial, "digest": dg,
            "sim_time": case["grid"][-1]}


def crash_signature(case):
    return {"mode": case.get("c09_mode")}


def shrink(case):
    m = case["model"]
    if case.get("script"):
        yield dict(case, script=[])
    if case.get("prelude"):
        yield dict(case, prelude=None)
    if case.get("reinit"):
        yield dict(case, reinit=case["reinit"] - 1)
    if case.get("lin_death"):
        yield dict(case, lin_death=None)
    # drop observers / rules one at a time
    for i, ru in enumerate(m["rules"]):
        used = ru["target"] in ("kr", "ksw")
        if used:
            continue
        mm = dict(m, rules=m["rules"][:i] + m["rules"][i + 1:])
        obs = [o for o in case["observers"] if o["target"] != ru["target"]]
        # later rules may depend on this target: only drop if nobody reads it
        reads = False
        for other in mm["rules"]:
            e = other["expr"]
            names = set(e) if other["type"] == "additive" else rm.expr_names(e)["sp"]
            if ru["target"] in names:
                reads = True
        for rx in m["reactions"]:
            if rx["pd"].get("s1") == ru["target"]:
                reads = True
        if not reads:
            yield dict(case, model=mm, observers=obs)
    g = case["grid"]
    if len(g) > 4:
        ng = g[: max(4, len(g) // 2)]
        ok = all((not isinstance(ru.get("freq"), (int, float))) or ru["freq"] in ng[1:-1] for ru in m["rules"])
        if ok:
            yield dict(case, grid=ng)
    for i in range(len(m["reactions"])):
        if len(m["reactions"]) > 1:
            rx = m["reactions"][i]
            if rx["pd"].get("k") in ("kr", "ksw"):
                continue
            mm = dict(m, reactions=m["reactions"][:i] + m["reactions"][i + 1:])
            obs = []
            for o in case["observers"]:
                if o.get("reaction") is not None:
                    if o["reaction"] == i:
                        continue
                    if o["reaction"] > i:
                        o = dict(o, reaction=o["reaction"] - 1)
                obs.append(o)
            yield dict(case, model=mm, observers=obs)


def sample(case, res):
    return {"mode": case["c09_mode"], "species": case["model"]["species"], "rules": case["model"]["rules"][:4],
            "reactions": case["model"]["reactions"][:2], "n_grid": len(case["grid"]), "dt": case["grid"][1],
            "observers": case["observers"]}


def reach_warnings(stats):
    out = []
    for k in ("mode_det", "mode_ssa", "mode_ssa_safe", "mode_volume", "mode_delay", "mode_lineage", "fired_burst", "fired_stall",
              "fired_absorb", "counter_steps", "marker_rows", "ode_steps", "rule_additive_repeated", "rule_assignment_repeated",
              "rule_assignment_dt", "rule_assignment_time", "rule_assignment_start", "rule_ode_dt", "metamorphic_runs",
              "rule_rows_checked"):
        if stats.get(k, 0) == 0:
            out.append(f"kind {k} never fired in this batch")
    return out


def finish_coverage(cov, stats, cfg):
    c06.finish_coverage(cov, stats, cfg)
