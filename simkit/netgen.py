"""Seeded generators of reaction networks, delays, grids (DESIGN.md 4, 'common generator facts')."""
import math

from . import refmodel as rm

SPECIES = ["A", "B", "C", "D"]
HILLS = ["hillpositive", "hillnegative", "proportionalhillpositive", "proportionalhillnegative"]


def logu(r, lo, hi):
    return math.exp(r.uniform(math.log(lo), math.log(hi)))


def nice(x, digits=4):
    return float(f"{x:.{digits}g}")


def rate(r, lo=0.05, hi=20.0):
    return nice(logu(r, lo, hi))


def maybe_named(r, model, prefix, value, p_named=0.4):
    """Either a literal numeric parameter or a named one stored in model['params']."""
    if r.random() < p_named:
        name = f"{prefix}{len(model['params'])}"
        model["params"][name] = value
        return name
    return value


def hill_pd(r, model, s1, d=None):
    pd = {"k": maybe_named(r, model, "k", rate(r, 0.2, 20.0)),
          "K": maybe_named(r, model, "K", nice(r.uniform(0.5, 10.0))),
          "n": maybe_named(r, model, "n", r.choice([1, 2, 2.5, 3])),
          "s1": s1}
    if d is not None:
        pd["d"] = d
    return pd


def general_rate_like(r, model, reactants, k):
    """A general (expression) rate: sum of positive terms built on the reactants (no cancellation)."""
    kname = ["num", k]
    terms = [["*", kname] + [["sp", s] for s in reactants]] if reactants else [kname]
    form = r.choice(["plain", "plus_const", "sat", "exp", "pow", "max", "step", "volmax", "volmin", "volabs",
                     "log", "min", "abs", "bump"])
    base = terms[0]
    if form in ("log", "min", "abs", "bump") and reactants:
        s = reactants[0]
        if form == "log":
            return ["*", base, ["log", ["+", ["num", 2.0], ["sp", s]]]]
        if form == "min":
            return ["min", base, ["num", nice(k * 6.0)], ["*", ["num", nice(k * 2.0)], ["+", ["num", 1.0], ["sp", s]]]]
        if form == "abs":
            return ["*", base, ["+", ["num", 0.25], ["abs", ["-", ["sp", s], ["num", 3.0]]]]]
        return ["*", base, ["exp", ["/", ["neg", ["^", ["-", ["sp", s], ["num", 3.0]], ["num", 2.0]]], ["num", 8.0]]]]
    if form == "step":
        # a rate gated at an INTEGER threshold: counts sit exactly on it, and Heaviside(0) is 1 ("at least n copies")
        pool = list(reactants) + [x for x in (model.get("species") or []) if x not in reactants]
        if pool:
            return ["*", base, ["heaviside", ["-", ["sp", r.choice(pool)], ["num", float(r.choice([1, 2, 3]))]]]]
        return base
    # the volume symbol inside every argument position of max / min / abs (it reads 1 where no volume is in play)
    if form == "volmax":
        return ["*", base, ["max", ["num", 0.25], ["/", ["num", 1.0], ["vol"]]]]
    if form == "volmin":
        return ["*", base, ["min", ["num", 2.0], ["vol"], ["+", ["num", 0.5], ["*", ["num", 0.5], ["vol"]]]]]
    if form == "volabs":
        return ["*", base, ["+", ["num", 0.5], ["abs", ["-", ["vol"], ["num", 1.5]]]]]
    if form == "plain":
        return base
    if form == "plus_const":
        if reactants:
            return ["+", base, ["*", ["num", nice(k * 0.1)], ["sp", reactants[0]]]]
        return ["+", base, ["num", nice(k * 0.1)]]
    if form == "sat" and reactants:
        s = reactants[0]
        return ["/", base, ["+", ["num", 1.0], ["*", ["num", 0.1], ["sp", s]]]]
    if form == "exp" and reactants:
        s = reactants[0]
        return ["*", base, ["exp", ["*", ["num", -0.05], ["sp", s]]]]
    if form == "pow" and reactants:
        s = reactants[0]
        return ["*", ["num", k], ["^", ["sp", s], ["num", 1.5]]] if len(reactants) == 1 else base
    if form == "max" and reactants:
        return ["max", base, ["num", 0.0]]
    return base


def gen_reaction(r, model, species, allow=("massaction", "hill", "general"), bounded_only=True, never_grow=()):
    """One random reaction on the given species. Keeps molecule numbers from exploding: a reaction whose net total is
    positive has a bounded (zero order / Hill / catalysed-by-non-growing) rate."""
    kind = r.choice(allow)
    n_sp = len(species)
    order = r.choice([0, 1, 1, 1, 2, 2, 2, 3])
    reactants = [r.choice(species) for _ in range(order)]
    if order >= 2 and r.random() < 0.35:
        reactants[1] = reactants[0]          # homodimer / repeated reactant
    if order == 3 and r.random() < 0.3:
        reactants[2] = reactants[0]
    n_prod = r.choice([0, 1, 1, 1, 2])
    products = [r.choice(species) for _ in range(n_prod)]
    if reactants and r.random() < 0.2:
        products.append(reactants[0])        # catalyst on both sides
    if bounded_only and len(products) > len(reactants) and order > 0:
        products = products[:len(reactants)]     # only zero-order reactions may increase the molecule total
    rxn = {"reactants": reactants, "products": products, "delay": None}
    k = rate(r)
    if kind == "massaction":
        rxn["type"] = "massaction"
        prev = [x for x in model.get("reactions", []) if x["type"] == "massaction" and x.get("prop_species") is None]
        if prev and r.random() < 0.2:
            # the same rate constant as an earlier reaction: refmodel.to_bioscrape then hands bioscrape the SAME dict object
            # for both (a parameter dictionary re-used by the caller must not tie the reactions together)
            rxn["pd"] = dict(r.choice(prev)["pd"])
        else:
            rxn["pd"] = {"k": maybe_named(r, model, "k", k)}
    elif kind == "hill":
        typ = r.choice(HILLS)
        s1 = r.choice(species)
        rxn["type"] = typ
        d = None
        if typ.startswith("proportional"):
            d = reactants[0] if reactants else r.choice(species)
            if not reactants:
                rxn["products"] = [p for p in products if p != d]   # no autocatalysis through the proportional species
        rxn["pd"] = hill_pd(r, model, s1, d)
    else:
        rxn["type"] = "general"
        rxn["pd"] = {"rate": general_rate_like(r, model, reactants, k)}
    return rxn


def consumes_non_massaction(model):
    """True if some reaction with a non-mass-action rate has a net consumption (=> only legal in safe mode for C06)."""
    for rxn in model["reactions"]:
        if rxn["type"] == "massaction":
            continue
        if rm.consumption(rxn):
            return True
    return False


def gen_open_network(r, allow=("massaction", "hill", "general"), max_species=4, max_rxn=5, init_hi=30):
    n_sp = r.randint(1, max_species)
    species = SPECIES[:n_sp]
    model = {"species": species, "init": {}, "params": {}, "reactions": [], "rules": []}
    for s in species:
        model["init"][s] = r.choice([0, 0, 1, 2, 3, 5, 8, 12, 20, init_hi])
    n_rx = r.randint(1, max_rxn)
    for _ in range(n_rx):
        model["reactions"].append(gen_reaction(r, model, species, allow))
    return model


def initial_lambda(model, vol=None, safe=False):
    st = {s: float(model["init"].get(s, 0)) for s in model["species"]}
    if safe:
        a = rm.safe_propensities(model, st, model["params"], 0.0, vol)
    else:
        a = rm.propensities(model, st, model["params"], 0.0, vol, True)
    return sum(x for x in a if x > 0)


def gen_grid(r, model, target_events=None, uniform=True, vol=None, npts=None):
    """Uniform grid from 0 with a binary-representable step; horizon tuned to the expected number of events."""
    n = npts or r.choice([5, 8, 12, 20, 33, 60])
    target = target_events or r.choice([5, 20, 60, 200, 600])
    lam = initial_lambda(model, vol)
    bounded = 0.0
    for rxn in model["reactions"]:
        if len(rxn["products"]) > len(rxn["reactants"]) or rxn["type"] != "massaction":
            kk = rxn["pd"].get("k", 1.0)
            kk = model["params"][kk] if isinstance(kk, str) else kk
            if rxn["type"] == "general":
                kk = 20.0
            mult = 1.0
            if rxn["type"].startswith("proportional"):
                mult = 1.0 + float(model["init"].get(rxn["pd"]["d"], 0))
            bounded += float(kk) * mult * (vol if vol else 1.0)
    bound = max(lam, bounded, 0.05)
    # bounded production keeps growing: allow for it
    horizon = target / bound
    horizon = cap_horizon(model, horizon, max_events=max(40 * target, 4000), vol=vol)
    step = horizon / (n - 1)
    # snap to k/64 (at least 1/64)
    k = max(1, int(round(step * 64)))
    k = min(k, 64 * 50)
    step = k / 64.0
    grid = [i * step for i in range(n)]
    if not uniform:
        # non-uniform: drop some interior points
        keep = [g for i, g in enumerate(grid) if i == 0 or i == n - 1 or r.random() < 0.7]
        if len(keep) >= 3:
            grid = keep
    return grid


# ------------------------------------------------------------------ delays
def add_delays(r, model, dt, horizon, p=0.6, far=False, delayed_reactants=False, markers=False, context=None):
    """Decorate reactions with delayed parts. Delay scale from dt/50 to 3x horizon (far: up to 1e12)."""
    species = model["species"]
    any_delay = False
    for rxn in model["reactions"]:
        if r.random() > p:
            continue
        any_delay = True
        typ = r.choice(["fixed", "gaussian", "gamma"])
        scale = r.choice([dt / 50, dt / 5, dt * 0.4, dt, dt * 2.5, horizon / 3, horizon, 3 * horizon])
        if far:
            scale = r.choice([1e6, 1e9, 1e12])
        scale = nice(scale)
        if typ == "fixed":
            pd = {"delay": maybe_named(r, model, "tau", scale)}
        elif typ == "gaussian":
            pd = {"mean": maybe_named(r, model, "mu", scale),
                  "std": maybe_named(r, model, "sd", nice(scale * r.choice([0.05, 0.3, 1.0, 2.0])))}
        else:
            kk = r.choice([1, 1.5, 2, 3, 7.5])
            pd = {"k": maybe_named(r, model, "gk", kk), "theta": maybe_named(r, model, "gth", nice(scale / kk))}
        # keep the molecule total from growing through the delayed part: move products into the delayed part and
        # add new delayed products only within the reaction's consumption budget (zero-order reactions are bounded anyway)
        prods = list(rxn["products"])
        dprods = []
        if prods and r.random() < 0.7:
            k = r.randint(1, len(prods))
            for _ in range(k):
                dprods.append(prods.pop(r.randrange(len(prods))))
        budget = len(rxn["reactants"]) - len(rxn["products"]) if rxn["reactants"] else 1
        for _ in range(max(0, min(budget, r.choice([0, 1, 1, 2])))):
            dprods.append(r.choice(species))
        dreacts = []
        # delayed reactants are not part of the rate law: outside safe mode they drive counts (and then propensities)
        # negative, where nothing is specified and bioscrape may not even terminate -> only generated on request
        if delayed_reactants and r.random() < 0.3:
            dreacts = [r.choice(species)]
        if markers and r.random() < 0.35:
            # transient marker: appears at the firing, is consumed by the delayed part; never overdraws as long as no
            # other reaction consumes it
            free = [s for s in species if not any(
                s in o["reactants"] or (o.get("delay") and s in (o["delay"].get("reactants") or []))
                for o in (context if context is not None else model["reactions"]))]
            if free:
                mk = r.choice(free)
                prods.append(mk)
                dreacts.append(mk)
        if not dprods and not dreacts:
            if delayed_reactants:
                dreacts = [r.choice(species)]
            else:
                continue
        rxn["products"] = prods
        rxn["delay"] = {"type": typ, "reactants": dreacts, "products": dprods, "pd": pd}
    return any_delay


# ------------------------------------------------------------------ finite-state family (for the CME oracle)
FAMILIES = ["interconv", "dimer", "hetero", "order3", "decay", "birthdeath", "hillgate", "catalysis",
            "general_uni", "general_bi", "prophill", "homotrimer", "mixed"]


def gen_finite_network(r, family=None):
    """Networks with a finite (or safely truncatable) reachable set. Returns (model, meta)."""
    fam = family or r.choice(FAMILIES)
    m = {"species": [], "init": {}, "params": {}, "reactions": [], "rules": []}

    def ma(reactants, products, k):
        return {"reactants": reactants, "products": products, "type": "massaction",
                "pd": {"k": maybe_named(r, m, "k", k)}, "delay": None}

    cap = None
    if fam == "interconv":
        m["species"] = ["A", "B", "C"][: r.choice([2, 3])]
        m["init"] = {s: r.choice([0, 2, 5, 9]) for s in m["species"]}
        if sum(m["init"].values()) == 0:
            m["init"]["A"] = 6
        sp = m["species"]
        for i in range(len(sp)):
            j = (i + 1) % len(sp)
            m["reactions"].append(ma([sp[i]], [sp[j]], rate(r, 0.1, 5)))
            if r.random() < 0.6:
                m["reactions"].append(ma([sp[j]], [sp[i]], rate(r, 0.1, 5)))
    elif fam == "dimer":
        m["species"] = ["A", "B"]
        m["init"] = {"A": r.choice([4, 7, 10, 15]), "B": r.choice([0, 2])}
        m["reactions"] = [ma(["A", "A"], ["B"], rate(r, 0.02, 1.0)), ma(["B"], ["A", "A"], rate(r, 0.1, 3))]
        if r.random() < 0.5:
            m["reactions"].append(ma(["A"], [], rate(r, 0.05, 0.5)))
    elif fam == "hetero":
        m["species"] = ["A", "B", "C"]
        m["init"] = {"A": r.choice([3, 6, 9]), "B": r.choice([2, 5, 8]), "C": r.choice([0, 1])}
        m["reactions"] = [ma(["A", "B"], ["C"], rate(r, 0.02, 1.0)), ma(["C"], ["A", "B"], rate(r, 0.1, 3))]
    elif fam == "order3":
        m["species"] = ["A", "B", "C"]
        m["init"] = {"A": r.choice([4, 6, 9]), "B": r.choice([2, 4]), "C": 0}
        m["reactions"] = [ma(["A", "A", "B"], ["C"], rate(r, 0.005, 0.2)), ma(["C"], ["A", "A", "B"], rate(r, 0.1, 2))]
    elif fam == "homotrimer":
        m["species"] = ["A", "B"]
        m["init"] = {"A": r.choice([5, 7, 9, 12]), "B": 0}
        m["reactions"] = [ma(["A", "A", "A"], ["B"], rate(r, 0.002, 0.1)), ma(["B"], ["A", "A", "A"], rate(r, 0.1, 2))]
    elif fam == "decay":
        m["species"] = ["A"]
        m["init"] = {"A": r.choice([5, 12, 25])}
        m["reactions"] = [ma(["A"], [], rate(r, 0.1, 3))]
    elif fam == "birthdeath":
        m["species"] = ["A"]
        kb, kd = rate(r, 0.5, 8), rate(r, 0.2, 2)
        m["init"] = {"A": r.choice([0, 3, 10])}
        m["reactions"] = [ma([], ["A"], kb), ma(["A"], [], kd)]
        cap = {"A": int(max(m["init"]["A"], kb / kd) * 3 + 40)}
    elif fam == "hillgate":
        typ = r.choice(["hillpositive", "hillnegative"])
        m["species"] = ["S", "T", "P"]
        m["init"] = {"S": r.choice([1, 3, 6]), "T": r.choice([0, 3]), "P": 0}
        kprod, kdeg = rate(r, 0.5, 6), rate(r, 0.3, 2)
        m["reactions"] = [ma(["S"], ["T"], rate(r, 0.1, 2)), ma(["T"], ["S"], rate(r, 0.1, 2)),
                          {"reactants": [], "products": ["P"], "type": typ, "pd": hill_pd(r, m, "S"), "delay": None},
                          ma(["P"], [], kdeg)]
        kk = m["reactions"][2]["pd"]["k"]
        kk = m["params"][kk] if isinstance(kk, str) else kk
        cap = {"P": int(kk / kdeg * 3 + 40)}
    elif fam == "prophill":
        typ = r.choice(["proportionalhillpositive", "proportionalhillnegative"])
        m["species"] = ["S", "G", "P"]
        m["init"] = {"S": r.choice([2, 5]), "G": r.choice([1, 2, 3]), "P": 0}
        kdeg = rate(r, 0.3, 2)
        m["reactions"] = [{"reactants": ["G"], "products": ["G", "P"], "type": typ, "pd": hill_pd(r, m, "S", "G"),
                           "delay": None},
                          ma(["P"], [], kdeg), ma(["S"], [], rate(r, 0.05, 0.5))]
        kk = m["reactions"][0]["pd"]["k"]
        kk = m["params"][kk] if isinstance(kk, str) else kk
        cap = {"P": int(kk * m["init"]["G"] / kdeg * 3 + 40)}
    elif fam == "catalysis":
        m["species"] = ["A", "B", "C"]
        m["init"] = {"A": r.choice([1, 3, 5]), "B": r.choice([5, 10, 15]), "C": 0}
        m["reactions"] = [ma(["A", "B"], ["A", "C"], rate(r, 0.02, 1.0)), ma(["C"], ["B"], rate(r, 0.1, 2))]
    elif fam == "general_uni":
        m["species"] = ["A", "B"]
        m["init"] = {"A": r.choice([5, 10, 15]), "B": 0}
        k1, k2 = rate(r, 0.1, 2), rate(r, 0.1, 2)
        m["reactions"] = [{"reactants": ["A"], "products": ["B"], "type": "general",
                           "pd": {"rate": ["/", ["*", ["num", k1], ["sp", "A"]], ["+", ["num", 1.0], ["*", ["num", 0.1], ["sp", "A"]]]]},
                           "delay": None},
                          {"reactants": ["B"], "products": ["A"], "type": "general",
                           "pd": {"rate": ["*", ["num", k2], ["sp", "B"]]}, "delay": None}]
    elif fam == "general_bi":
        m["species"] = ["A", "B", "C"]
        m["init"] = {"A": r.choice([4, 8]), "B": r.choice([3, 6]), "C": 0}
        k1, k2 = rate(r, 0.02, 0.5), rate(r, 0.1, 2)
        m["reactions"] = [{"reactants": ["A", "B"], "products": ["C"], "type": "general",
                           "pd": {"rate": ["*", ["num", k1], ["sp", "A"], ["sp", "B"]]}, "delay": None},
                          ma(["C"], ["A", "B"], k2)]
    else:  # mixed: dimerisation + catalysed conversion + decay
        m["species"] = ["A", "B", "C"]
        m["init"] = {"A": r.choice([6, 9, 12]), "B": 0, "C": r.choice([0, 2])}
        m["reactions"] = [ma(["A", "A"], ["B"], rate(r, 0.02, 0.6)), ma(["B"], ["A", "A"], rate(r, 0.1, 2)),
                          ma(["B", "A"], ["B", "C"], rate(r, 0.02, 0.6)), ma(["C"], ["A"], rate(r, 0.1, 2))]
    return m, {"family": fam, "cap": cap}


def bounded(model):
    """True if no reaction can grow the molecule total at a rate that itself grows with the counts
    (such networks explode and a run would not finish within any reasonable event cap)."""
    for rxn in model["reactions"]:
        imm, dly = rm.stoich_columns(rxn)
        # delay simulators apply the immediate part first: it must not grow the total either (transient autocatalysis)
        total = max(sum(imm.values()) + sum(dly.values()), sum(imm.values()))
        if total <= 0:
            continue
        if rxn["type"] == "massaction" and not rxn["reactants"]:
            continue
        if rxn["type"] in ("hillpositive", "hillnegative"):
            continue
        if rxn["type"] == "general":
            if not rm.expr_names(rxn["pd"]["rate"])["sp"] or rxn.get("rate_bounded"):
                continue      # production at a rate bounded by a constant: at most linear growth
        return False
    return True


def strip_markers(model):
    for rxn in model["reactions"]:
        d = rxn.get("delay")
        if d and d.get("reactants"):
            for mk in list(d["reactants"]):
                if mk in rxn["products"]:
                    rxn["products"].remove(mk)
                d["reactants"].remove(mk)
            if not d["products"] and not d["reactants"]:
                rxn["delay"] = None


def expected_events(model, horizon, vol=None, steps=300, safe=False):
    """Mean-field (explicit Euler, clipped at 0) estimate of the cumulative number of firings over [0, horizon].
    Returns list of (time, cumulative events). Used only to keep generated runs within an event budget."""
    st = {s: float(model["init"].get(s, 0)) for s in model["species"]}
    pr = dict(model.get("params", {}))
    cols = []
    for rxn in model["reactions"]:
        imm, dly = rm.stoich_columns(rxn)
        net = dict(imm)
        for sname, v in dly.items():
            net[sname] = net.get(sname, 0) + v
        cols.append(net)
    h = horizon / steps
    cum = 0.0
    out = [(0.0, 0.0, 0.0)]
    t = 0.0
    for i in range(steps):
        try:
            rm.apply_rules(model, st, pr, t, False, h)
            a = rm.propensities(model, st, pr, t, vol, False)
        except (ZeroDivisionError, OverflowError, ValueError):
            break
        a = [x if (x == x and x > 0) else 0.0 for x in a]
        lam = sum(a)
        # sub-step so that no species changes by more than ~50% per step
        sub = 1
        if lam * h > 0.5 * (1.0 + sum(st.values())):
            sub = min(200, int(lam * h / (0.5 * (1.0 + sum(st.values())))) + 1)
        hh = h / sub
        for _ in range(sub):
            try:
                a = rm.propensities(model, st, pr, t, vol, False)
            except (ZeroDivisionError, OverflowError, ValueError):
                return out
            a = [x if (x == x and x > 0) else 0.0 for x in a]
            for aj, col in zip(a, cols):
                for sname, c in col.items():
                    st[sname] = max(0.0, st[sname] + c * aj * hh)
            cum += sum(a) * hh
            t += hh
        out.append((t, cum, sum(a)))
        if cum > 1e9:
            break
    return out


def cap_horizon(model, horizon, max_events=30000, vol=None):
    """Largest horizon <= the given one whose mean-field event estimate stays below max_events."""
    ev = expected_events(model, horizon, vol)
    lam0 = ev[1][2] if len(ev) > 1 else 0.0
    lam_cap = max(30.0 * lam0, 3000.0)
    # the estimate must have covered the whole horizon (it stops early on overflow / domain errors)
    complete = ev[-1][0] >= horizon * (1 - 1e-9)
    prev_t = 0.0
    for rec in ev[1:]:
        t, c, lam = rec
        # stop before the event budget is exhausted or the total rate has taken off (finite-time blow-up is
        # underestimated by the explicit Euler scheme, so stay well clear of it)
        if c > max_events or lam > lam_cap:
            return max(prev_t * 0.6, horizon * 1e-6)
        prev_t = t
    if not complete:
        return max(prev_t * 0.6, horizon * 1e-6)
    return horizon
