"""Fork-based worker pool with journalling, per-case wall caps and crash attribution (DESIGN.md 3.7).

The unit of work is a *case id* (an int index into the batch).  `run_fn(case_index)` must be a pure function
of the index (and of module-level state set up before the pool is created) and must return a picklable
result.  Results are returned in index order whatever the number of workers, so aggregation is independent
of scheduling.

A worker that dies is attributed to the case it had journalled; a case that exceeds its wall cap is killed and
re-run alone with 10x the cap before it counts as a hang.
"""
import faulthandler
import multiprocessing as mp
import os
import signal
import sys
import time
import traceback
from multiprocessing.connection import wait

CTX = mp.get_context("fork")


class CaseOutcome:
    __slots__ = ("index", "status", "value", "detail")

    def __init__(self, index, status, value=None, detail=None):
        self.index = index
        self.status = status      # 'ok' | 'crash' | 'hang' | 'error'
        self.value = value
        self.detail = detail

    def __repr__(self):
        return f"CaseOutcome({self.index}, {self.status}, {self.detail})"


def _worker_main(conn, run_fn, indices, chunk):
    # child
    try:
        # the library prints from inside some constructors: keep the check's stdout for verdict lines only
        _dn = os.open(os.devnull, os.O_WRONLY)
        os.dup2(_dn, 1)
    except Exception:
        pass
    try:
        # a crashing case is attributed by the parent; keep the child's own dump out of the check's output
        _fh = open(os.environ.get("VERIF_FAULT_LOG", os.devnull), "a")
        faulthandler.enable(file=_fh, all_threads=False)
    except Exception:
        pass
    try:
        buf = []
        for i in indices:
            conn.send(("start", i))
            try:
                v = run_fn(i)
                buf = ("done", i, v)
            except BaseException as e:  # harness error inside the case
                buf = ("error", i, "".join(traceback.format_exception(type(e), e, e.__traceback__))[-6000:])
            conn.send(buf)
        conn.send(("end", None))
        conn.close()
    finally:
        sys.stdout.flush()
        sys.stderr.flush()
        os._exit(0)


class _Worker:
    def __init__(self, run_fn, indices):
        self.indices = list(indices)
        self.parent, child = CTX.Pipe(duplex=False)
        self.proc = CTX.Process(target=_worker_main, args=(child, run_fn, self.indices, 0))
        self.proc.daemon = True
        self.proc.start()
        child.close()
        self.current = None
        self.started_at = None
        self.done = set()
        self.finished = False


def run_indexed(run_fn, n_cases, jobs=None, case_timeout=20.0, confirm_factor=5.0, progress=None,
                indices=None, stop_when=None, confirm=True):
    """Run run_fn(i) for i in range(n_cases) (or the given indices) over `jobs` forked workers.

    Returns list of CaseOutcome sorted by index.  stop_when(outcome) -> True aborts early (remaining cases are
    not run; used only by thorough searches after the first violation).
    """
    jobs = jobs or int(os.environ.get("VERIF_JOBS", "0")) or min(16, os.cpu_count() or 1)
    todo = list(range(n_cases)) if indices is None else list(indices)
    if not todo:
        return []
    jobs = max(1, min(jobs, len(todo)))
    # interleaved static partition: worker w gets todo[w::jobs]; deterministic and balanced
    outcomes = {}
    pending_lists = [todo[w::jobs] for w in range(jobs)]
    workers = [_Worker(run_fn, lst) for lst in pending_lists if lst]
    suspects = []  # indices that timed out once, to be confirmed alone
    stop = False
    try:
        while workers:
            conns = [w.parent for w in workers]
            ready = wait(conns, timeout=0.5)
            now = time.time()
            for w in list(workers):
                if w.parent in ready:
                    try:
                        while w.parent.poll():
                            msg = w.parent.recv()
                            if msg[0] == "start":
                                w.current = msg[1]
                                w.started_at = time.time()
                            elif msg[0] == "done":
                                outcomes[msg[1]] = CaseOutcome(msg[1], "ok", msg[2])
                                w.done.add(msg[1])
                                w.current = None
                                if progress:
                                    progress(len(outcomes))
                                if stop_when and stop_when(outcomes[msg[1]]):
                                    stop = True
                            elif msg[0] == "error":
                                outcomes[msg[1]] = CaseOutcome(msg[1], "error", None, msg[2])
                                w.done.add(msg[1])
                                w.current = None
                            elif msg[0] == "end":
                                w.finished = True
                    except (EOFError, OSError):
                        pass
                    if w.finished:
                        w.proc.join(5)
                        workers.remove(w)
                        continue
                    if not w.proc.is_alive():
                        # drain done; then attribute the death
                        w.proc.join(1)
                        code = w.proc.exitcode
                        if w.current is not None and w.current not in w.done:
                            outcomes[w.current] = CaseOutcome(w.current, "crash", None,
                                                              f"worker died, exit code {code}"
                                                              + (f" (signal {signal.Signals(-code).name})" if code is not None and code < 0 else ""))
                            w.done.add(w.current)
                        rest = [i for i in w.indices if i not in w.done]
                        workers.remove(w)
                        if rest and not stop:
                            workers.append(_Worker(run_fn, rest))
                        continue
                # timeout check
                if w in workers and w.current is not None and w.started_at is not None \
                        and now - w.started_at > case_timeout:
                    idx = w.current
                    try:
                        os.kill(w.proc.pid, signal.SIGKILL)
                    except OSError:
                        pass
                    w.proc.join(5)
                    suspects.append(idx)
                    w.done.add(idx)
                    rest = [i for i in w.indices if i not in w.done]
                    workers.remove(w)
                    if rest and not stop:
                        workers.append(_Worker(run_fn, rest))
            if stop:
                for w in workers:
                    try:
                        os.kill(w.proc.pid, signal.SIGKILL)
                    except OSError:
                        pass
                    w.proc.join(5)
                workers = []
    finally:
        for w in workers:
            try:
                os.kill(w.proc.pid, signal.SIGKILL)
            except OSError:
                pass
    # confirm suspects alone with a larger cap
    confirmed = 0
    for idx in suspects:
        if not confirm:
            outcomes[idx] = CaseOutcome(idx, "hang", None, f"no return within {case_timeout:.0f}s")
            continue
        if confirmed >= 2:
            # two real hangs are already established in this batch (the check fails anyway): do not spend
            # confirm_factor x the cap on every further suspect
            outcomes[idx] = CaseOutcome(idx, "hang", None,
                                        f"no return within {case_timeout:.0f}s (not re-run alone: 2 hangs already confirmed)")
            continue
        o = run_isolated(run_fn, idx, timeout=case_timeout * confirm_factor)
        if o.status == "hang":
            confirmed += 1
        if o.status == "hang":
            outcomes[idx] = o
        else:
            if o.status == "ok":
                o.detail = "first attempt exceeded the wall cap under load; isolated re-run finished"
            outcomes[idx] = o
    return [outcomes[i] for i in sorted(outcomes)]


def run_isolated(run_fn, index, timeout=200.0):
    """Run one case alone in a forked child; classify ok / error / crash / hang."""
    w = _Worker(run_fn, [index])
    t0 = time.time()
    out = None
    while True:
        if w.parent.poll(0.2):
            try:
                msg = w.parent.recv()
            except (EOFError, OSError):
                msg = None
            if msg is None:
                pass
            elif msg[0] == "done":
                out = CaseOutcome(index, "ok", msg[2])
            elif msg[0] == "error":
                out = CaseOutcome(index, "error", None, msg[2])
            elif msg[0] == "end":
                break
        if not w.proc.is_alive():
            # drain
            try:
                while w.parent.poll():
                    msg = w.parent.recv()
                    if msg[0] == "done":
                        out = CaseOutcome(index, "ok", msg[2])
                    elif msg[0] == "error":
                        out = CaseOutcome(index, "error", None, msg[2])
            except (EOFError, OSError):
                pass
            break
        if time.time() - t0 > timeout:
            try:
                os.kill(w.proc.pid, signal.SIGKILL)
            except OSError:
                pass
            w.proc.join(5)
            return CaseOutcome(index, "hang", None, f"no return within {timeout:.0f}s (isolated)")
    w.proc.join(5)
    if out is None:
        code = w.proc.exitcode
        return CaseOutcome(index, "crash", None, f"worker died, exit code {code}"
                           + (f" (signal {signal.Signals(-code).name})" if code is not None and code < 0 else ""))
    return out


def call_isolated(fn, *args, timeout=200.0):
    """Run fn(*args) in a forked child and return a CaseOutcome (index 0)."""
    return run_isolated(lambda _i: fn(*args), 0, timeout=timeout)
