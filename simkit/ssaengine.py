"""Engine `ssa`: run one of bioscrape's four stochastic simulators on a generated case under a seeded or scripted
uniform stream with semantic tracing, and compare with the reference simulator in lock-step (DESIGN.md 3.2-3.4)."""
import hashlib

import numpy as np

from . import mt64, refmodel as rm, refsim, seeds, trace as tr

TRACE_CAP = 4_000_000


# ------------------------------------------------------------------ scripts (fault kinds through the uniform source)
def gen_script(r, kinds):
    """A finite list of 53-bit integers k; uniform = k/(2^53-1). Segments chosen from the enabled fault kinds."""
    ks = []
    nseg = r.choice([1, 2, 3, 5])
    for _ in range(nseg):
        kind = r.choice(kinds)
        if kind == "burst":
            L = r.choice([6, 12, 25, 60])
            for _ in range(L):
                ks.append(mt64.k_of(1.0 - 10.0 ** r.uniform(-9, -3)))   # tiny waiting time
                ks.append(mt64.k_of(r.random()))
        elif kind == "stall":
            ks.append(mt64.k_of(10.0 ** r.uniform(-300, -6)))          # huge waiting time
        elif kind == "edge_pick":
            ks.append(mt64.k_of(r.random()))
            ks.append(r.choice([1, 2, 1000, 9007199254740990, 9007199254740989, 9007199254740000]))
        elif kind == "neg_delay":
            # Box-Muller: u small -> large radius, v ~ 0.5 -> cos(2 pi v) = -1
            ks.append(mt64.k_of(r.random()))
            ks.append(mt64.k_of(r.random()))
            ks.append(mt64.k_of(10.0 ** r.uniform(-12, -3)))
            ks.append(mt64.k_of(0.5 + r.uniform(-0.02, 0.02)))
        elif kind == "late_delay":
            ks.append(mt64.k_of(r.random()))
            ks.append(mt64.k_of(r.random()))
            ks.append(mt64.k_of(10.0 ** r.uniform(-12, -3)))
            ks.append(mt64.k_of(r.choice([0.0, 1.0]) + r.uniform(-0.01, 0.01)) if r.random() < 0.5 else mt64.k_of(1e-4))
        else:  # filler
            for _ in range(r.choice([1, 3, 10])):
                ks.append(mt64.k_of(r.random()))
    return ks


def script_values(ks):
    return np.array([mt64.script_value(k) for k in ks], dtype=float)


# ------------------------------------------------------------------ real execution
def build_volume(case, M, iface):
    from bioscrape.types import Volume as TVolume, StochasticTimeThresholdVolume, StateDependentVolume
    vs = case.get("vol") or {}
    spec = vs.get("spec") or {"kind": "const"}
    v0 = vs.get("v0", 1.0)
    if spec["kind"] == "const":
        v = TVolume()
        v.py_set_volume(v0)
        return v
    if spec["kind"] == "time_threshold":
        v = StochasticTimeThresholdVolume(spec["cycle"], spec["vdiv"], spec["noise"])
    else:
        v = StateDependentVolume()
        v.setup(spec["vdiv"], spec["noise"], rm.expr_str(spec["growth"]), M)
    st = iface.py_get_initial_state().copy()
    pv = np.asarray(iface.py_get_param_values(), dtype=float)
    v.py_initialize(st, pv, 0.0, v0)
    return v


def reinitialise(M, n):
    """Edit history before a run: initialise, declare an unused parameter (un-initialises the model), n times; the next
    initialisation (interface construction / simulation) must yield the model a fresh build would."""
    for i in range(n or 0):
        M.py_initialize()
        M.create_parameter("zz_unused_%d" % i, 1.0)


def execute(case):
    """Run the real simulator. Returns dict(rows, times, vols, divided, recs, dropped, queue(list per slot), error)."""
    import bioscrape.random as R_
    from bioscrape.simulator import (ModelCSimInterface, SafeModelCSimInterface, SSASimulator, DelaySSASimulator,
                                     VolumeSSASimulator, DelayVolumeSSASimulator, ArrayDelayQueue, py_simulate_model)
    model = case["model"]
    grid = np.array(case["grid"], dtype=float)
    mode = case["mode"]
    out = {"error": None}
    M = rm.to_bioscrape(model)
    reinitialise(M, case.get("reinit", 0))
    out["species_order"] = M.get_species_list()
    R_.py_seed_random(case["bseed"])
    dt = float(grid[1] - grid[0])
    iface = None
    vol_obj = None
    via_entry_iface = case.get("entry") == "iface" and mode != "delayvolume" and not (case.get("vol") or {}).get("spec")
    if via_entry_iface:
        # a pre-built interface handed to the entry point: its own step (the constructor's default, or one left by an
        # earlier use on another grid) is not the grid's - the entry point has to bring it in line
        iface = SafeModelCSimInterface(M) if case.get("safe") else ModelCSimInterface(M)
        if case["bseed"] & 2:
            iface.py_set_dt(dt * 3.0 + 0.125)
    elif case.get("entry", "direct") == "direct" or mode == "delayvolume" or (case.get("vol") or {}).get("spec"):
        iface = SafeModelCSimInterface(M) if case.get("safe") else ModelCSimInterface(M)
        iface.py_set_dt(case.get("iface_dt", dt))
        if mode in ("volume", "delayvolume"):
            # volume objects draw their division time / volume at initialisation: trace that too
            pass
    pre = case.get("prelude")
    if pre:
        # an earlier, unrelated simulation of the same Model object (and of the same interface when there is one): whatever
        # it did must leave no trace in the traced run that follows
        import warnings as _w
        pg = grid[: max(3, min(len(grid), 6))]
        with _w.catch_warnings():
            _w.simplefilter("ignore")
            try:
                R_.py_seed_random(seeds.derive(case["bseed"], "prelude") | 1)
                kwp = {"ssa": dict(stochastic=True), "safe": dict(stochastic=True),
                       "volume": dict(stochastic=True, volume=1.37), "delay": dict(stochastic=True, delay=True),
                       "delayvolume": dict(stochastic=True, delay=True, volume=0.8), "det": dict(stochastic=False)}[pre]
                if pre != "det":
                    # the prelude stays in the domain the case itself is in: safe mode whenever the case needs it
                    kwp["safe"] = bool(case.get("safe")) or pre == "safe"
                if iface is not None and pre in ("ssa", "volume", "delay", "delayvolume"):
                    py_simulate_model(pg, Interface=iface, return_dataframe=False, **kwp)
                    if not via_entry_iface:
                        iface.py_set_dt(case.get("iface_dt", dt))
                else:
                    py_simulate_model(pg, Model=M, return_dataframe=False, **kwp)
            except Exception:
                pass        # whatever the prelude run did or raised, only its after-effects on the traced run matter here
        R_.py_seed_random(case["bseed"])
    ks = case.get("script") or []
    R_.py_verif_script(script_values(ks))
    R_.py_verif_trace_start(TRACE_CAP, 1)
    try:
        if mode in ("volume", "delayvolume") and iface is not None:
            vol_obj = build_volume(case, M, iface)
        if via_entry_iface:
            kwm = {"ssa": {}, "delay": {"delay": True}, "volume": {"volume": case["vol"]["v0"] if mode == "volume" else None}}[mode]
            kwm = {k: v for k, v in kwm.items() if v is not None}
            res = py_simulate_model(grid, Interface=iface, stochastic=True, return_dataframe=False, **kwm)
        elif mode == "ssa":
            if iface is not None:
                res = SSASimulator().py_simulate(iface, grid)
            else:
                res = py_simulate_model(grid, Model=M, stochastic=True, safe=bool(case.get("safe")), return_dataframe=False)
        elif mode == "delay":
            if iface is not None and case.get("split"):
                # a run continued from the first segment's final state and returned queue
                k = case["split"]
                q = ArrayDelayQueue.setup_queue(len(model["reactions"]), k + 1, dt)
                res1 = DelaySSASimulator().py_delay_simulate(iface, q, grid[:k + 1])
                rows1 = np.array(res1.py_get_result(), dtype=float)
                iface.py_set_initial_state(rows1[-1].copy())
                iface.py_set_initial_time(float(grid[k]))
                res = DelaySSASimulator().py_delay_simulate(iface, res1.py_get_delay_queue(), grid[k:])
                out["rows_first_segment"] = rows1
            elif iface is not None:
                q = ArrayDelayQueue.setup_queue(len(model["reactions"]), len(grid), dt)
                res = DelaySSASimulator().py_delay_simulate(iface, q, grid)
            else:
                res = py_simulate_model(grid, Model=M, stochastic=True, delay=True, safe=bool(case.get("safe")),
                                        return_dataframe=False)
        elif mode == "volume":
            if iface is not None:
                res = VolumeSSASimulator().py_volume_simulate(iface, vol_obj, grid)
            else:
                res = py_simulate_model(grid, Model=M, stochastic=True, volume=case["vol"]["v0"],
                                        safe=bool(case.get("safe")), return_dataframe=False)
        elif mode == "delayvolume":
            q = ArrayDelayQueue.setup_queue(len(model["reactions"]), len(grid), dt)
            res = DelayVolumeSSASimulator().py_delay_volume_simulate(iface, q, vol_obj, grid)
        else:
            raise ValueError(mode)
    except Exception as e:  # the simulator raised: reported to the caller, which decides
        flat, dropped = R_.py_verif_trace_stop()
        R_.py_verif_script(np.zeros(0))
        out["error"] = f"{type(e).__name__}: {e}"
        out["recs"] = tr.decode(flat)
        return out
    flat, dropped = R_.py_verif_trace_stop()
    out["script_used"] = R_.py_verif_script_used()
    R_.py_verif_script(np.zeros(0))
    out["recs"] = tr.decode(flat)
    out["dropped"] = dropped
    out["rows"] = np.array(res.py_get_result(), dtype=float)
    tp = res.py_get_timepoints()
    out["times"] = None if tp is None else np.array(tp, dtype=float)
    if out.get("rows_first_segment") is not None:
        out["rows"] = np.vstack([out.pop("rows_first_segment"), out["rows"]])
    if mode in ("volume", "delayvolume"):
        out["vols"] = np.array(res.py_get_volume(), dtype=float)
        out["divided"] = int(res.py_cell_divided())
    if mode in ("delay", "delayvolume"):
        q = res.py_get_delay_queue()
        # drain a copy: what is still queued, per slot
        c = q.py_copy()
        Rn = len(model["reactions"])
        slots = []
        for _ in range(len(grid) + 2):
            a = np.zeros(Rn)
            t = c.py_get_next_queue_time()
            c.py_get_next_reactions(a)
            c.py_advance_time()
            slots.append((t, a.tolist()))
        out["queue"] = slots
    # the model's own arrays must not have moved (C08 collateral)
    out["init_after"] = {s: float(v) for s, v in M.get_species_dictionary().items()}
    out["stoich"] = (np.array(M.py_get_update_array()).tolist(), np.array(M.py_get_delay_update_array()).tolist())
    return out


# ------------------------------------------------------------------ lock-step
def reference(case, raw):
    """Returns (ref or None, structure_error or None). Consumes the volume initialisation draw when present."""
    tape = tr.Tape(raw["recs"])
    model, grid, mode = case["model"], case["grid"], case["mode"]
    safe = bool(case.get("safe"))
    dt = case.get("iface_dt", grid[1] - grid[0])
    volinit = None
    vs = case.get("vol") or {}
    spec = vs.get("spec")
    v0 = vs.get("v0", 1.0)
    pre_sem = []
    try:
        if mode in ("volume", "delayvolume") and spec and spec["kind"] != "const":
            rec = tape.next("N")
            if rec is None:
                raise refsim.Structure("no division draw at volume initialisation")
            if not (rm.close(rec[1], 1.0) and rm.close(rec[2], spec["noise"])):
                pre_sem.append({"what": "division_draw_args", "expected": [1.0, spec["noise"]], "traced": [rec[1], rec[2]]})
            if spec["kind"] == "time_threshold":
                import math
                g = 0.69314718056 / spec["cycle"]
                volinit = {"division_time": 0.0 + rec[3] * (math.log(spec["vdiv"] / v0) / g)}
            else:
                volinit = {"division_volume": spec["vdiv"] * rec[3]}
        if mode == "ssa":
            ref = refsim.sim_ssa(model, grid, tape, safe=safe, dt=dt)
        elif mode == "delay":
            ref = refsim.sim_delay(model, grid, tape, safe=safe, dt=dt, split=case.get("split"))
        elif mode == "volume":
            ref = refsim.sim_volume(model, grid, tape, safe=safe, dt=dt, v0=v0, volspec=spec, volinit=volinit)
        else:
            ref = refsim.sim_delay_volume(model, grid, tape, safe=safe, dt=dt, v0=v0, volspec=spec, volinit=volinit)
    except refsim.Structure as e:
        return None, str(e), tape
    ref.sem = pre_sem + ref.sem
    ref.volinit = volinit
    if tape.remaining():
        return ref, f"{tape.remaining()} unconsumed trace records (first {tape.peek()})", tape
    return ref, None, tape


def lockstep(case, raw):
    """Verdict of one run. Returns dict(violations=[...], stats={...}, ref=ref)."""
    viols = []
    stats = {"lockstep_match": 0, "lockstep_semantic": 0, "lockstep_timing_divergence": 0, "lockstep_rows": 0}
    if raw.get("error"):
        viols.append({"class": "simulator_raised", "signature": {"mode": case["mode"]}, "detail": {"error": raw["error"]}})
        return {"violations": viols, "stats": stats, "ref": None}
    if raw.get("dropped"):
        stats["trace_overflow"] = 1
        return {"violations": viols, "stats": stats, "ref": None}
    ref, serr, tape = reference(case, raw)
    sig = {"mode": case["mode"], "safe": bool(case.get("safe"))}
    if ref is not None and ref.sem:
        stats["lockstep_semantic"] = 1
        first = ref.sem[0]
        viols.append({"class": "semantic_" + first["what"], "signature": dict(sig, lambda_zero=bool(ref.lambda_zero_seen)),
                      "detail": {"first": first, "count": len(ref.sem)}})
        return {"violations": viols, "stats": stats, "ref": ref}
    if serr is not None:
        stats["lockstep_timing_divergence"] = 1
        return {"violations": viols, "stats": stats, "ref": ref, "divergence": serr}
    # record sequence matched today's protocol record for record: rows must equal the prediction
    rows = raw["rows"]
    exp = np.array(ref.rows, dtype=float).reshape(len(ref.rows), len(case["model"]["species"]))
    order = raw["species_order"]
    perm = [order.index(s) for s in case["model"]["species"]]
    got = rows[:, perm] if rows.size else rows
    if case["model"].get("rules"):
        # rule right-hand sides are real-valued and sympy may reorder their arithmetic: last-ulp differences are not semantic
        ok = got.shape == exp.shape and bool(np.allclose(got, exp, rtol=1e-12, atol=1e-300))
    else:
        ok = got.shape == exp.shape and np.array_equal(got, exp)
    if ok and case["mode"] in ("volume", "delayvolume"):
        ev = np.array(ref.vols, dtype=float)
        gv = raw["vols"]
        ok = gv.shape == ev.shape and bool(np.allclose(gv, ev, rtol=1e-12, atol=0))
        if ok and bool(raw["divided"]) != bool(ref.divided):
            ok = False
    if not ok:
        stats["lockstep_rows"] = 1
        k = None
        if got.shape == exp.shape:
            bad = np.argwhere(~np.isclose(got, exp, rtol=1e-12, atol=1e-300))
            k = int(bad[0][0]) if len(bad) else None
        sig = dict(sig, lambda_zero=bool(ref.lambda_zero_seen))
        detail = {"first_bad_row": k, "shape_got": list(got.shape), "shape_expected": list(exp.shape)}
        if k is not None:
            detail["got"] = got[k].tolist()
            detail["expected"] = exp[k].tolist()
            kk = k if not case.get("split") else (k if k <= case["split"] else k - 1)
            detail["time"] = case["grid"][min(kk, len(case["grid"]) - 1)]
        if case["mode"] in ("volume", "delayvolume"):
            detail["vols_got"] = raw["vols"][:8].tolist()
            detail["vols_expected"] = ref.vols[:8]
            detail["divided"] = [int(raw["divided"]), int(ref.divided)]
        viols.append({"class": "rows_differ_under_matching_protocol", "signature": sig, "detail": detail})
        return {"violations": viols, "stats": stats, "ref": ref}
    stats["lockstep_match"] = 1
    return {"violations": viols, "stats": stats, "ref": ref}


def digest(raw):
    h = hashlib.sha256()
    if raw.get("error"):
        h.update(raw["error"].encode())
    else:
        h.update(np.ascontiguousarray(raw["rows"]).tobytes())
        if raw.get("vols") is not None:
            h.update(np.ascontiguousarray(raw["vols"]).tobytes())
    h.update(repr(raw.get("recs")).encode())
    return h.hexdigest()


def event_signature(ref, case):
    """Hash of the per-interval multiset of (event kind, reaction) along the run."""
    if ref is None:
        return None
    grid = case["grid"]
    sig = []
    idx = 0
    cur = []
    for ev in ref.events:
        while idx < len(grid) and grid[idx] < ev[0]:
            sig.append(tuple(sorted(cur)))
            cur = []
            idx += 1
        cur.append((ev[1], ev[2] if ev[1] != "grow" else 0))
    sig.append(tuple(sorted(cur)))
    return repr((case["mode"], bool(case.get("safe")), len(grid), sig))
