"""Reference simulators (DESIGN.md 3.4).  Each consumes the *traced* dice outcomes of one real run (waiting time, chosen
reaction, delay, ...) and predicts (a) the arguments of every traced call and (b) every reported row.

Verdict categories:
  semantic  - an obligation that does not depend on when dice are thrown failed (weights, Lambda, chosen zero-weight ...)
  structure - the record sequence is not the one today's draw protocol produces (=> timing divergence, never reported alone)
  rows      - protocol matched record for record but a reported row differs from the predicted one
"""
from . import refmodel as rm


class Structure(Exception):
    pass


class Ref:
    def __init__(self, model, grid, safe=False, vol=None, dt=None, init_time=0.0):
        self.model = model
        self.grid = list(grid)
        self.safe = safe
        self.vol = vol
        self.dt = dt if dt is not None else ((grid[1] - grid[0]) if len(grid) > 1 else 0.01)
        self.state = {s: float(model["init"].get(s, 0.0)) for s in model["species"]}
        self.params = dict(model.get("params", {}))
        self.t = init_time
        self.sem = []        # semantic mismatches
        self.rows = []
        self.vols = []
        self.events = []     # (time, kind, reaction index / info)
        self.cols = [rm.stoich_columns(r) for r in model["reactions"]]
        self.net = []
        for imm, dly in self.cols:
            c = dict(imm)
            for s, v in dly.items():
                c[s] = c.get(s, 0) + v
            self.net.append(c)
        self.n_fired = [0] * len(model["reactions"])
        self.chosen_zero = 0
        self.max_interval_firings = 0
        self.states_seen = set()
        self.lambda_zero_seen = False
        self.out_of_domain = 0

    # -- helpers
    def props(self, vol=None):
        if self.safe:
            a = rm.safe_propensities(self.model, self.state, self.params, self.t, vol)
        else:
            a = rm.propensities(self.model, self.state, self.params, self.t, vol, True)
        if any(x != x for x in a):
            raise Structure("a rate is undefined at the tracked state (outside the non-negative domain)")
        return a

    def row(self):
        return [self.state[s] for s in self.model["species"]]

    def expect(self, tape, kind):
        r = tape.next(kind)
        if r is None:
            raise Structure(f"expected {kind} record, found {tape.peek()}")
        return r

    def in_domain(self):
        for v in self.state.values():
            if v < 0:
                self.out_of_domain += 1
                return False
        return True

    def check_E(self, rec, Lam, where):
        if not self.in_domain():
            return   # negative counts (legitimate overdraw by delayed reactants / unsafe Hill consumers): rates unspecified
        if not rm.close(rec[1], Lam):
            self.sem.append({"what": "Lambda", "where": where, "t": self.t, "state": self.row(),
                             "expected": Lam, "traced": rec[1]})

    def check_D(self, rec, a, Lam):
        if not self.in_domain():
            j = rec[3]
            if j < 0 or j >= len(a):
                raise Structure("choice out of range")
            return j
        if rec[1] != len(a) or not rm.vec_close(rec[4], a):
            self.sem.append({"what": "weights", "t": self.t, "state": self.row(), "expected": a, "traced": rec[4]})
        if not rm.close(rec[2], Lam):
            self.sem.append({"what": "Lambda_choice", "t": self.t, "expected": Lam, "traced": rec[2]})
        j = rec[3]
        if j < 0 or j >= len(a):
            self.sem.append({"what": "choice_out_of_range", "t": self.t, "choice": j})
            raise Structure("choice out of range")
        if a[j] <= 0:
            self.chosen_zero += 1
            self.sem.append({"what": "zero_weight_chosen", "t": self.t, "state": self.row(), "choice": j, "weights": a})
        return j


def _finish_interval(ref, count):
    if count > ref.max_interval_firings:
        ref.max_interval_firings = count


def sim_ssa(model, grid, tape, safe=False, dt=None):
    """Plain SSASimulator protocol (direct method, redraw after each grid point)."""
    ref = Ref(model, grid, safe=safe, dt=dt)
    n = len(grid)
    idx = 0
    rule_step = True
    fired_in_interval = 0
    steps = 0
    while idx < n:
        steps += 1
        if steps > 2_000_000:
            raise Structure("reference step cap")
        rm.apply_rules(model, ref.state, ref.params, ref.t, rule_step, ref.dt)
        a = ref.props()
        Lam = 0.0
        for x in a:
            Lam += x
        if Lam == 0:
            ref.lambda_zero_seen = True
            proposed = grid[idx]
            fired = False
            rule_step = True
        else:
            rec = ref.expect(tape, "E")
            ref.check_E(rec, Lam, "wait")
            proposed = ref.t + rec[2]
            fired = True
            rule_step = False
        if proposed > grid[idx]:
            ref.t = grid[idx]
            fired = False
            rule_step = True
        else:
            ref.t = proposed
        while idx < n and grid[idx] <= ref.t:
            ref.rows.append(ref.row())
            idx += 1
            _finish_interval(ref, fired_in_interval)
            fired_in_interval = 0
        if Lam > 0 and fired:
            rec = ref.expect(tape, "D")
            j = ref.check_D(rec, a, Lam)
            rm.apply_column(ref.state, ref.net[j])
            ref.n_fired[j] += 1
            ref.events.append((ref.t, "fire", j))
            fired_in_interval += 1
    return ref


class RefDelayQueue:
    def __init__(self, R, slots, dt, current_time):
        self.R, self.n, self.dt = R, slots, dt
        self.nqt = current_time + dt
        self.pending = [[0] * R for _ in range(slots)]
        self.entries = []   # (fire_time, reaction, requested_time, slot_time)

    def add(self, t_req, j, fire_time):
        x = (t_req - self.nqt) / self.dt + 0.5
        if x < 0:
            i = 0
        elif x >= self.n:
            i = self.n - 1
        else:
            i = int(x)
        self.pending[i][j] += 1
        slot_time = self.nqt + i * self.dt
        # self-check of the reference against the statement: nearest grid time unless clamped to the first / last slot
        if 0 < i < self.n - 1 and abs(slot_time - t_req) > 0.5 * self.dt * (1 + 1e-9):
            raise AssertionError("reference queue: slot is not the nearest grid time")
        self.entries.append((fire_time, j, t_req, slot_time))
        return i

    def pop(self):
        out = self.pending.pop(0)
        self.pending.append([0] * self.R)
        self.nqt += self.dt
        return out

    def total(self):
        return [sum(self.pending[i][j] for i in range(self.n)) for j in range(self.R)]


def _delay_draw(ref, tape, j):
    """Reads the delay of reaction j from the tape (or the fixed value) and checks the traced arguments."""
    rxn = ref.model["reactions"][j]
    d = rxn.get("delay")
    if not d or d["type"] in (None, "none"):
        return 0.0
    dp = rm.delay_params(rxn, ref.params)
    if d["type"] == "fixed":
        return dp["delay"]
    if d["type"] == "gaussian":
        rec = ref.expect(tape, "N")
        if not (rm.close(rec[1], dp["mean"]) and rm.close(rec[2], dp["std"])):
            ref.sem.append({"what": "delay_args", "reaction": j, "expected": [dp["mean"], dp["std"]],
                            "traced": [rec[1], rec[2]]})
        return rec[3]
    if d["type"] == "gamma":
        rec = ref.expect(tape, "G")
        if not (rm.close(rec[1], dp["k"]) and rm.close(rec[2], dp["theta"])):
            ref.sem.append({"what": "delay_args", "reaction": j, "expected": [dp["k"], dp["theta"]],
                            "traced": [rec[1], rec[2]]})
        return rec[3]
    raise ValueError(d["type"])


def sim_delay(model, grid, tape, safe=False, dt=None, queue_dt=None, split=None):
    """DelaySSASimulator protocol: race next reaction / next grid point / next queue slot.
    split=k: the run is continued at grid[k] from the first segment's final state and returned queue (the queue keeps its
    pending content and is re-based at the new start time, as set_current_time does)."""
    ref = Ref(model, grid, safe=safe, dt=dt)
    R = len(model["reactions"])
    full = list(grid)
    q = RefDelayQueue(R, len(full) if split is None else split + 1, queue_dt if queue_dt is not None else full[1] - full[0], ref.t)
    ref.queue = q
    ref.n_delivered = [0] * R
    ref.n_immediate_delivery = [0] * R
    ref.delays = []
    segments = [full] if split is None else [full[:split + 1], full[split:]]
    for si, grid in enumerate(segments):
        if si > 0:
            ref.t = grid[0]
            q.nqt = ref.t + q.dt
        _sim_delay_segment(ref, model, grid, tape, q)
    return ref


def _sim_delay_segment(ref, model, grid, tape, q):
    n = len(grid)
    idx = 0
    rule_step = True
    steps = 0
    fired_in_interval = 0
    while idx < n:
        steps += 1
        if steps > 2_000_000:
            raise Structure("reference step cap")
        rm.apply_rules(model, ref.state, ref.params, ref.t, rule_step, ref.dt)
        a = ref.props()
        Lam = 0.0
        for x in a:
            Lam += x
        if Lam == 0:
            ref.lambda_zero_seen = True
            proposed = grid[idx]
            fired = False
            rule_step = True
        else:
            rec = ref.expect(tape, "E")
            ref.check_E(rec, Lam, "wait")
            proposed = ref.t + rec[2]
            fired = True
            rule_step = False
        if proposed > grid[idx]:
            proposed = grid[idx]
            fired = False
            rule_step = True
        if q.nqt < proposed:
            ref.t = q.nqt
            move = True
            fired = False
            rule_step = False
        else:
            ref.t = proposed
            move = False
        while idx < n and grid[idx] <= ref.t:
            ref.rows.append(ref.row())
            idx += 1
            _finish_interval(ref, fired_in_interval)
            fired_in_interval = 0
        if move:
            out = q.pop()
            for j, c in enumerate(out):
                if c:
                    rm.apply_column(ref.state, ref.cols[j][1], c)
                    ref.n_delivered[j] += c
                    ref.events.append((ref.t, "deliver", j, c))
        elif fired:
            rec = ref.expect(tape, "D")
            j = ref.check_D(rec, a, Lam)
            delay = _delay_draw(ref, tape, j)
            rm.apply_column(ref.state, ref.cols[j][0])
            ref.n_fired[j] += 1
            fired_in_interval += 1
            ref.events.append((ref.t, "fire", j, delay))
            ref.delays.append((j, delay))
            if delay > 0.0:
                q.add(ref.t + delay, j, ref.t)
            else:
                rm.apply_column(ref.state, ref.cols[j][1])
                ref.n_immediate_delivery[j] += 1


class RefVolume:
    """Reference volume models: constant, exponential growth with time threshold, state dependent growth."""

    def __init__(self, spec, v0):
        self.spec = spec or {"kind": "const"}
        self.V = v0
        self.division_time = None
        self.division_volume = None

    def step(self, ref, t, dt):
        k = self.spec["kind"]
        if k == "const":
            return 0.0
        if k == "time_threshold":
            import math
            g = 0.69314718056 / self.spec["cycle"]
            return (math.exp(g * dt) - 1.0) * self.V
        if k == "state_dependent":
            import math
            g = rm.expr_eval(self.spec["growth"], ref.state, ref.params, t, 1.0)
            return (math.exp(g * dt) - 1.0) * self.V
        raise ValueError(k)

    def divided(self, t, dt):
        k = self.spec["kind"]
        if k == "const":
            return False
        if k == "time_threshold":
            return self.division_time > t - dt and self.division_time <= t
        if k == "state_dependent":
            return self.V > self.division_volume
        raise ValueError(k)


def sim_volume(model, grid, tape, safe=False, dt=None, v0=1.0, volspec=None, volinit=None):
    """VolumeSSASimulator protocol with the *intended* growth clock: one growth step per elapsed dt whatever Lambda is."""
    ref = Ref(model, grid, safe=safe, dt=dt, vol=v0)
    vm = RefVolume(volspec, v0)
    if volinit:
        vm.division_time = volinit.get("division_time")
        vm.division_volume = volinit.get("division_volume")
    ref.volume_model = vm
    n = len(grid)
    idx = 0
    rule_step = True
    delta = ref.dt
    nqt = ref.t + delta
    ref.divided = False
    ref.growth_steps = 0
    steps = 0
    fired_in_interval = 0
    while idx < n:
        steps += 1
        if steps > 2_000_000:
            raise Structure("reference step cap")
        rm.apply_rules(model, ref.state, ref.params, ref.t, rule_step, ref.dt, vol=vm.V)
        a = ref.props(vol=vm.V)
        Lam = 0.0
        for x in a:
            Lam += x
        move = False
        if Lam == 0:
            ref.lambda_zero_seen = True
            proposed = grid[idx]
            fired = False
            rule_step = False        # dt rules follow the growth clock (one per elapsed dt), not the grid landings
        else:
            rec = ref.expect(tape, "E")
            ref.check_E(rec, Lam, "wait")
            proposed = ref.t + rec[2]
            fired = True
            rule_step = False
        if nqt < proposed:
            ref.t = nqt
            nqt += delta
            move = True
            fired = False
            rule_step = True
        else:
            ref.t = proposed
        while idx < n and grid[idx] <= ref.t:
            ref.rows.append(ref.row())
            ref.vols.append(vm.V)
            idx += 1
            _finish_interval(ref, fired_in_interval)
            fired_in_interval = 0
        if move:
            vm.V += vm.step(ref, ref.t, delta)
            ref.growth_steps += 1
            ref.events.append((ref.t, "grow", vm.V))
            if vm.divided(ref.t, delta):
                ref.divided = True
                break
        elif fired:
            rec = ref.expect(tape, "D")
            j = ref.check_D(rec, a, Lam)
            rm.apply_column(ref.state, ref.net[j])
            ref.n_fired[j] += 1
            fired_in_interval += 1
            ref.events.append((ref.t, "fire", j))
    # the volume step due at the final time point belongs to the run (taken above unless the loop ended first)
    while not ref.divided and nqt <= grid[-1]:
        vm.V += vm.step(ref, nqt, delta)
        ref.growth_steps += 1
        if vm.divided(nqt, delta):
            ref.divided = True
        nqt += delta
    ref.n_rows = idx
    return ref


def sim_delay_volume(model, grid, tape, safe=False, dt=None, v0=1.0, volspec=None, volinit=None, queue_dt=None):
    """DelayVolumeSSASimulator protocol (race reaction / volume step / queue slot); with Lambda == 0 the intended
    behaviour is to advance to the next grid / volume / queue time without firing."""
    ref = Ref(model, grid, safe=safe, dt=dt, vol=v0)
    vm = RefVolume(volspec, v0)
    if volinit:
        vm.division_time = volinit.get("division_time")
        vm.division_volume = volinit.get("division_volume")
    ref.volume_model = vm
    n = len(grid)
    R = len(model["reactions"])
    q = RefDelayQueue(R, n, queue_dt if queue_dt is not None else grid[1] - grid[0], ref.t)
    ref.queue = q
    ref.n_delivered = [0] * R
    ref.n_immediate_delivery = [0] * R
    ref.delays = []
    idx = 0
    rule_step = True
    delta = ref.dt
    next_vol = ref.t + delta
    ref.divided = False
    ref.growth_steps = 0
    steps = 0
    fired_in_interval = 0
    while idx < n:
        steps += 1
        if steps > 2_000_000:
            raise Structure("reference step cap")
        rm.apply_rules(model, ref.state, ref.params, ref.t, rule_step, ref.dt, vol=vm.V)
        a = ref.props(vol=vm.V)
        Lam = 0.0
        for x in a:
            Lam += x
        if Lam == 0:
            ref.lambda_zero_seen = True
            proposed = grid[idx]
            rule_step = True
        else:
            rec = ref.expect(tape, "E")
            ref.check_E(rec, Lam, "wait")
            proposed = ref.t + rec[2]
            rule_step = False
        nq = q.nqt
        if proposed < next_vol and proposed < nq:
            ref.t = proposed
            step = 0 if Lam > 0 else 3
        elif next_vol < nq:
            ref.t = next_vol
            next_vol += delta
            step = 1
            rule_step = True
        else:
            ref.t = nq
            step = 2
            rule_step = False
        while idx < n and grid[idx] <= ref.t:
            ref.rows.append(ref.row())
            ref.vols.append(vm.V)
            idx += 1
            _finish_interval(ref, fired_in_interval)
            fired_in_interval = 0
        if step == 0:
            rec = ref.expect(tape, "D")
            j = ref.check_D(rec, a, Lam)
            delay = _delay_draw(ref, tape, j)
            rm.apply_column(ref.state, ref.cols[j][0])
            ref.n_fired[j] += 1
            fired_in_interval += 1
            ref.events.append((ref.t, "fire", j, delay))
            ref.delays.append((j, delay))
            if delay > 0.0:
                q.add(ref.t + delay, j, ref.t)
            else:
                rm.apply_column(ref.state, ref.cols[j][1])
                ref.n_immediate_delivery[j] += 1
        elif step == 1:
            vm.V += vm.step(ref, ref.t, delta)
            ref.growth_steps += 1
            ref.events.append((ref.t, "grow", vm.V))
            if vm.divided(ref.t, delta):
                ref.divided = True
                break
        elif step == 2:
            if idx >= n:
                break       # the last row is written: what is due at this very time stays queued
            out = q.pop()
            for j, c in enumerate(out):
                if c:
                    rm.apply_column(ref.state, ref.cols[j][1], c)
                    ref.n_delivered[j] += c
                    ref.events.append((ref.t, "deliver", j, c))
    while not ref.divided and next_vol <= grid[-1]:
        vm.V += vm.step(ref, next_vol, delta)
        ref.growth_steps += 1
        if vm.divided(next_vol, delta):
            ref.divided = True
        next_vol += delta
    ref.n_rows = idx
    return ref
