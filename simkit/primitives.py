"""Checks of the random primitives behind C05: the twister against an independent MT19937-64, the uniform mapping,
and every derived sampler both by its exact transform (fast path) and by goodness of fit (decides, see DESIGN.md 3.4)."""
import math

import numpy as np
from scipy import stats as st

from . import mt64, seeds, trace as tr

ALPHA = 1e-9


def _ks(sample, cdf):
    return float(st.kstest(sample, cdf).pvalue)


def run(seed, n_stat=200_000, n_seeds=64):
    import bioscrape.random as R
    viols = []
    stats = {"prim_twister_outputs": 0, "prim_transform_checked": 0, "prim_transform_mismatch": 0, "prim_stat_tests": 0}
    minp = 1.0

    def bad(cls, **detail):
        viols.append({"index": 20_000_000 + len(viols), "case": {"_prim": True, "seed": seed, "n_stat": n_stat,
                                                                "n_seeds": n_seeds},
                      "violation": {"class": cls, "signature": {"primitive": detail.get("primitive", "")}, "detail": detail}})

    # 1. twister and uniform mapping, exact
    r = seeds.rng(seed, "prim")
    for s in range(n_seeds):
        sd = r.getrandbits(64) or 1
        ref = mt64.MT64(sd)
        R.py_seed_random(sd)
        for i in range(1000):
            a = R.py_rand_int()
            b = ref.genrand64()
            if a != b:
                # another generator is not a violation by itself: the goodness-of-fit tests below decide
                stats["prim_twister_differs"] = stats.get("prim_twister_differs", 0) + 1
                break
        R.py_seed_random(sd)
        ref = mt64.MT64(sd)
        for i in range(200):
            a = R.py_uniform_rv()
            b = ref.uniform()
            if a != b:
                stats["prim_uniform_mapping_differs"] = stats.get("prim_uniform_mapping_differs", 0) + 1
                break
        stats["prim_twister_outputs"] += 1200

    # 2. transforms (level-2 trace shows the uniforms each composite draw consumed)
    sd = seeds.bioscrape_seed(seed, "prim-transform")
    R.py_seed_random(sd)
    R.py_verif_trace_start(2_000_000, 2)
    lam_list = [0.3, 1.0, 17.5, 1234.5]
    for lam in lam_list:
        for _ in range(500):
            R.py_exponential_rv(lam)
    w = np.array([0.5, 0.0, 2.25, 1.0, 0.0, 3.5])
    for _ in range(2000):
        R.py_sample_discrete(len(w), w, float(w.sum()))
    for _ in range(1000):
        R.py_normal_rv(1.5, 0.75)
    for _ in range(500):
        R.py_binom_rnd_f(13.0, 0.3)
    flat, dropped = R.py_verif_trace_stop()
    recs = tr.decode(flat)
    us = []
    mism = {"E": 0, "D": 0, "N": 0, "B": 0}
    for rec in recs:
        if rec[0] == "U":
            us.append(rec[1])
            continue
        stats["prim_transform_checked"] += 1
        if rec[0] == "E":
            ok = len(us) == 1 and rec[2] == -1.0 / rec[1] * math.log(us[0])
        elif rec[0] == "D":
            if len(us) == 1:
                q = us[0] * rec[2]
                i = 0
                p = 0.0
                while p < q and i < rec[1]:
                    p += rec[4][i]
                    i += 1
                ok = (i - 1) == rec[3]
            else:
                ok = False
        elif rec[0] == "N":
            if len(us) == 2:
                val = math.sqrt(-2 * math.log(us[0])) * math.cos(2 * 3.141592653589793238462643383279502884 * us[1]) * rec[2] + rec[1]
                ok = abs(val - rec[3]) <= 1e-12 * max(1.0, abs(val))
            else:
                ok = False
        elif rec[0] == "B":
            ok = len(us) == int(rec[1] + 0.5) and sum(1 for u in us if u < rec[2]) == int(rec[3])
        else:
            ok = True
        if not ok:
            mism[rec[0]] = mism.get(rec[0], 0) + 1
        us = []
    stats["prim_transform_mismatch"] = sum(mism.values())
    # a transform mismatch is not a violation by itself (another exact sampler is legal): the statistical tests decide.

    # 3. goodness of fit, fixed seeds
    sd = seeds.bioscrape_seed(seed, "prim-stat")
    R.py_seed_random(sd)
    n = n_stat
    for lam in (0.7, 25.0):
        x = np.array([R.py_exponential_rv(lam) for _ in range(n)])
        p = _ks(x, st.expon(scale=1.0 / lam).cdf)
        stats["prim_stat_tests"] += 1
        minp = min(minp, p)
        if p < ALPHA:
            bad("exponential_distribution", primitive="exponential_rv", Lambda=lam, p=p, n=n)
    x = np.array([R.py_uniform_rv() for _ in range(n)])
    p = _ks(x, st.uniform().cdf)
    stats["prim_stat_tests"] += 1
    minp = min(minp, p)
    if p < ALPHA:
        bad("uniform_distribution", primitive="uniform_rv", p=p, n=n)
    for (mu, sg) in ((0.0, 1.0), (-3.0, 0.2)):
        x = np.array([R.py_normal_rv(mu, sg) for _ in range(n)])
        p = _ks(x, st.norm(mu, sg).cdf)
        stats["prim_stat_tests"] += 1
        minp = min(minp, p)
        if p < ALPHA:
            bad("normal_distribution", primitive="normal_rv", mean=mu, std=sg, p=p, n=n)
    for (k, th) in ((1.0, 2.0), (2.5, 0.4), (9.0, 1.0)):
        x = np.array([R.py_gamma_rv(k, th) for _ in range(n)])
        p = _ks(x, st.gamma(k, scale=th).cdf)
        stats["prim_stat_tests"] += 1
        minp = min(minp, p)
        if p < ALPHA:
            bad("gamma_distribution", primitive="gamma_rv", k=k, theta=th, p=p, n=n)
    # discrete choice
    wts = np.array([0.5, 0.0, 2.25, 1.0, 0.0, 3.5, 1e-3])
    tot = float(wts.sum())
    c = np.zeros(len(wts))
    for _ in range(n):
        c[R.py_sample_discrete(len(wts), wts, tot)] += 1
    if c[1] or c[4]:
        bad("zero_weight_chosen", primitive="sample_discrete", counts=c.tolist())
    nz = wts > 0
    e = wts[nz] / tot * n
    chi = float(((c[nz] - e) ** 2 / e).sum())
    p = float(st.chi2.sf(chi, nz.sum() - 1))
    stats["prim_stat_tests"] += 1
    minp = min(minp, p)
    if p < ALPHA:
        bad("discrete_distribution", primitive="sample_discrete", p=p, counts=c.tolist())
    # binomial
    for (N, pp) in ((12, 0.5), (30, 0.07), (5, 0.93)):
        m = n // 5
        x = np.array([R.py_binom_rnd_f(float(N), pp) for _ in range(m)])
        cnt = np.bincount(x.astype(int), minlength=N + 1)[: N + 1].astype(float)
        pm = st.binom(N, pp).pmf(np.arange(N + 1))
        from . import cme
        stat, dof, p, cells = cme.chi_square(cnt, pm, 10.0)
        stats["prim_stat_tests"] += 1
        minp = min(minp, p)
        if x.max() > N:
            bad("binomial_out_of_range", primitive="binom_rnd_f", N=N, p=pp, max=int(x.max()))
        if p < ALPHA:
            bad("binomial_distribution", primitive="binom_rnd_f", N=N, prob=pp, p=p)
    cov = {"primitives": {"twister_outputs_compared": stats["prim_twister_outputs"],
                          "transform_draws_checked": stats["prim_transform_checked"],
                          "transform_mismatches": mism, "twister_identical_to_reference_mt19937_64": stats.get("prim_twister_differs", 0) == 0,
                          "uniform_mapping_identical": stats.get("prim_uniform_mapping_differs", 0) == 0, "stat_tests": stats["prim_stat_tests"], "min_p_value": minp,
                          "draws_per_stat_test": n}}
    return {"stats": stats, "violations": viols, "coverage": cov}
