"""Finite-state chemical master equation oracle (DESIGN.md 3.6): generator matrix from the *reference* propensities,
p(t) by expm_multiply, Pearson chi-square of empirical counts against it."""
from collections import deque

import numpy as np
import scipy.sparse as sp
from scipy.sparse.linalg import expm_multiply
from scipy.stats import chi2

from . import refmodel as rm


class TooBig(Exception):
    pass


def reachable(model, vol=None, safe=False, cap=None, max_states=3000):
    """BFS over the reachable set with the reference propensities. Returns (states list of tuples, index dict,
    transitions list of (i, j, rate), boundary set of state indices whose outgoing transitions were cut by `cap`)."""
    species = model["species"]
    params = dict(model.get("params", {}))
    cols = []
    for rxn in model["reactions"]:
        imm, dly = rm.stoich_columns(rxn)
        net = dict(imm)
        for s, v in dly.items():
            net[s] = net.get(s, 0) + v
        cols.append(tuple(net.get(s, 0) for s in species))
    x0 = tuple(int(model["init"].get(s, 0)) for s in species)
    index = {x0: 0}
    states = [x0]
    trans = []
    boundary = set()
    dq = deque([x0])
    capv = None
    if cap:
        capv = [cap.get(s) for s in species]
    while dq:
        x = dq.popleft()
        i = index[x]
        st = {s: float(x[k]) for k, s in enumerate(species)}
        if safe:
            a = rm.safe_propensities(model, st, params, 0.0, vol)
        else:
            a = rm.propensities(model, st, params, 0.0, vol, True)
        for j, aj in enumerate(a):
            if aj < 0:
                raise ValueError("negative propensity in the reachable set")
            if aj == 0:
                continue
            y = tuple(x[k] + cols[j][k] for k in range(len(x)))
            if any(v < 0 for v in y):
                raise ValueError("reachable state with a negative count")
            if capv and any(c is not None and v > c for v, c in zip(y, capv)):
                boundary.add(i)
                continue
            if y == x:
                continue
            if y not in index:
                if len(states) >= max_states:
                    raise TooBig()
                index[y] = len(states)
                states.append(y)
                dq.append(y)
            trans.append((i, index[y], aj))
    return states, index, trans, boundary


def generator(nstates, trans):
    rows = [t[0] for t in trans]
    cols = [t[1] for t in trans]
    vals = [t[2] for t in trans]
    Q = sp.coo_matrix((vals, (rows, cols)), shape=(nstates, nstates)).tocsr()
    out = np.asarray(Q.sum(axis=1)).ravel()
    Q = Q - sp.diags(out)
    return Q.tocsc()


def marginals(Q, n, times):
    """p(t) for each t in times (increasing, starting >= 0) from p(0) = e_0. Returns array (len(times), n)."""
    p0 = np.zeros(n)
    p0[0] = 1.0
    A = Q.T.tocsc()
    out = []
    prev_t = 0.0
    p = p0
    for t in times:
        if t > prev_t:
            p = expm_multiply(A * (t - prev_t), p)
        p = np.clip(p, 0.0, None)
        out.append(p.copy())
        prev_t = t
    return np.array(out)


def transition_matrix(Q, n, tau):
    """Dense P(tau) = exp(Q tau); rows = from-state. Only for small n."""
    A = Q.T.tocsc() * tau
    P = expm_multiply(A, np.eye(n))       # columns: distribution starting from state k
    return np.clip(P.T, 0.0, None)


def chi_square(counts, probs, min_expected=10.0):
    """Pearson chi-square of observed counts (array) against probabilities (array), merging small cells.
    Returns (stat, dof, pvalue, n_cells)."""
    counts = np.asarray(counts, dtype=float)
    probs = np.asarray(probs, dtype=float)
    N = counts.sum()
    tot = probs.sum()
    exp = probs * N
    # an extra cell for mass outside the enumerated set (should be ~0)
    rest = max(0.0, 1.0 - tot) * N
    order = np.argsort(-exp)
    cells_o, cells_e = [], []
    acc_o = acc_e = 0.0
    for k in order:
        if exp[k] >= min_expected:
            cells_o.append(counts[k])
            cells_e.append(exp[k])
        else:
            acc_o += counts[k]
            acc_e += exp[k]
    acc_e += rest
    if acc_e >= min_expected:
        cells_o.append(acc_o)
        cells_e.append(acc_e)
    elif cells_e:
        # fold the remainder into the smallest kept cell
        cells_o[-1] += acc_o
        cells_e[-1] += acc_e
    else:
        return 0.0, 0, 1.0, 1
    o = np.array(cells_o)
    e = np.array(cells_e)
    if len(o) < 2:
        # a single cell: the only testable fact is that nothing fell outside it
        return 0.0, 0, 1.0, 1
    stat = float(((o - e) ** 2 / e).sum())
    dof = len(o) - 1
    return stat, dof, float(chi2.sf(stat, dof)), len(o)


def impossible_observed(counts, probs, N, tol=1e-12):
    """Observations in cells whose probability is (numerically) zero: a certain violation, whatever N is."""
    counts = np.asarray(counts)
    probs = np.asarray(probs)
    bad = np.where((counts > 0) & (probs * N < tol))[0]
    return bad.tolist()
