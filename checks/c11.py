"""C11 - volume-aware simulation scales rates with volume and tracks growth and division (DESIGN.md 4.7)."""
import math

import numpy as np

from simkit import distoracle, mt64, netgen, pathinv, refmodel as rm, seeds, ssaengine as eng
from checks import c06

PROPERTY = "C11"
LEVEL = "exploration"
RULE = ("case = seeded network x constant volume V in (0.2,5) or growing volume (time-threshold / state-dependent law, division "
        "draw traced and scripted for early/late division) x grid x {volume SSA, delay+volume SSA} x {plain, safe} x "
        "seeded/scripted stream incl. networks that go silent; lock-step against volume-scaled closed forms + protocol-free "
        "checks of the reported volume trace, division instant, flag and time axis; non-trivial = run with >= 1 firing or "
        ">= 1 growth step; distinct = distinct per-interval event signatures. Constant-volume law: CME goodness of fit "
        "(coverage.distribution_tests)")
ASSUMPTIONS = c06.ASSUMPTIONS + [
    "the division criterion is the volume model's own (time threshold: sampled division time falls in the last step; state "
    "dependent: volume above the sampled division volume); it is read from the traced draw, not re-sampled",
    "'within one time step of the growth law': reported volume / law in [exp(-g dt), exp(+g dt)] (relative 1e-9 slack)",
]
COMPONENTS = c06.COMPONENTS
TIERS = {
    "quick": {"cases": 20000, "block": 200, "case_timeout": 30.0, "dist_models": 26, "dist_N": 40000},
    "thorough": {"cases": 500000, "block": 500, "case_timeout": 60.0, "dist_models": 130, "dist_N": 400000},
}
MODES = ["volume"] * 5 + ["delayvolume"]


def _normal_script(r, z):
    """Two uniforms (u, v) whose Box-Muller value is approximately z."""
    if z >= 0:
        v = r.choice([1e-6, 1 - 1e-6])
        c = math.cos(2 * math.pi * v)
    else:
        v = 0.5
        c = -1.0
    rad = abs(z) / abs(c)
    u = math.exp(-rad * rad / 2.0)
    return [mt64.k_of(max(u, 1e-300)), mt64.k_of(v)]


def gen_case(case_seed, cfg):
    case = c06.gen_case(case_seed, cfg, modes=MODES, delays_in_plain=False, nonuniform_p=0.0)
    r = seeds.rng(case_seed, "c11")
    grid = case["grid"]
    horizon = grid[-1]
    v0 = case["vol"]["v0"]
    kind = r.choice(["const", "const", "time_threshold", "time_threshold", "state_dependent"])
    vol = {"v0": v0}
    pre = []
    if kind == "time_threshold":
        noise = r.choice([0.0, 0.05, 0.2])
        vol["spec"] = {"kind": kind, "cycle": netgen.nice(horizon * r.uniform(0.2, 2.5)),
                       "vdiv": netgen.nice(v0 * r.uniform(1.2, 2.5)), "noise": noise}
    elif kind == "state_dependent":
        noise = r.choice([0.0, 0.05, 0.15])
        g = netgen.nice(r.uniform(0.1, 3.0) / max(horizon, 1e-6))
        s = r.choice(case["model"]["species"])
        growth = r.choice([["num", g], ["*", ["num", g], ["/", ["+", ["sp", s], ["num", 1.0]], ["+", ["sp", s], ["num", 5.0]]]],
                           ["num", 0.0]])
        vol["spec"] = {"kind": kind, "vdiv": netgen.nice(v0 * r.uniform(1.1, 2.5)), "noise": min(noise, v0 * 0.9),
                       "growth": growth}
    if vol.get("spec") and vol["spec"]["noise"] > 0 and r.random() < 0.4:
        fault = r.choice(["early_division", "late_division"])
        z = -0.98 / vol["spec"]["noise"] if fault == "early_division" else r.uniform(3.0, 6.0)
        pre = _normal_script(r, z)
        case["kinds"] = case["kinds"] + [fault]
    case["vol"] = vol
    if vol.get("spec"):
        case["entry"] = "direct"
        case["script"] = pre + case["script"] if (pre or case["script"]) else []
    return case


def volume_oracle(case, raw, stats):
    """Protocol-free checks over the reported volume trace / division flag / time axis."""
    viols = []
    sig = {"mode": case["mode"], "safe": bool(case.get("safe")),
           "volume": (case["vol"].get("spec") or {"kind": "const"})["kind"]}
    grid = case["grid"]
    vols = raw["vols"]
    times = raw["times"]
    rows = raw["rows"]
    divided = bool(raw["divided"])
    spec = case["vol"].get("spec") or {"kind": "const"}
    v0 = case["vol"]["v0"]
    dt = grid[1] - grid[0]
    n = len(vols)

    def bad(cls, **d):
        viols.append({"class": cls, "signature": sig, "detail": d})

    if not (len(times) == n == rows.shape[0]):
        bad("result_lengths_differ", times=len(times), vols=n, rows=int(rows.shape[0]))
        return viols
    if n == 0 or n > len(grid) or not np.array_equal(times, np.array(grid[:n])):
        bad("time_axis_not_a_prefix_of_the_grid", n=n, first_times=times[:5].tolist())
        return viols
    if np.any(vols <= 0) or not np.all(np.isfinite(vols)):
        bad("volume_not_positive", vols=vols[:10].tolist())
        return viols
    if not divided and n != len(grid):
        bad("rows_missing_without_division", n=n, expected=len(grid))
    # the division draw
    ndraw = None
    for rec in raw["recs"]:
        if rec[0] == "N":
            ndraw = rec
        break
    if spec["kind"] == "const":
        if divided:
            bad("constant_volume_divided")
        if not np.all(vols == v0):
            bad("constant_volume_changed", vols=vols[:10].tolist(), v0=v0)
        return viols
    if ndraw is None:
        bad("no_division_draw")
        return viols
    slack = 1e-9
    if spec["kind"] == "time_threshold":
        g = 0.69314718056 / spec["cycle"]
        stats["growth_runs"] = stats.get("growth_runs", 0) + 1
        if np.any(np.diff(vols) < -slack * vols[:-1]):
            bad("volume_decreased", vols=vols[:10].tolist())
        law = v0 * np.exp(g * np.array(grid[:n]))
        ratio = vols / law
        lo, hi = math.exp(-g * dt) * (1 - slack), math.exp(g * dt) * (1 + slack)
        if np.any(ratio < lo) or np.any(ratio > hi):
            k = int(np.argwhere((ratio < lo) | (ratio > hi))[0][0])
            bad("volume_off_the_growth_law", row=k, time=grid[k], volume=float(vols[k]), law=float(law[k]),
                allowed=[lo, hi])
        t_div = ndraw[3] * (math.log(spec["vdiv"] / v0) / g)
        # first volume-step time t = k*dt (k >= 1) with t_div in (t - dt, t]
        exp_div = None
        if t_div > 0:
            k = int(math.ceil(t_div / dt - 1e-12))
            k = max(k, 1)
            # (a division falling in the last grid interval leaves every row in place, but it is still reported: the flag)
            if (k * dt) >= t_div > (k - 1) * dt and k * dt <= grid[-1] + 1e-12:
                exp_div = k * dt
        if exp_div is not None:
            stats["division_expected"] = stats.get("division_expected", 0) + 1
            if not divided:
                bad("division_missed", division_time=t_div, expected_end=exp_div)
            elif abs(times[-1] - exp_div) > 1e-9:
                bad("result_does_not_end_at_division", division_time=t_div, expected_end=exp_div, got_end=float(times[-1]))
        else:
            if divided:
                bad("division_reported_without_cause", division_time=t_div, end=float(times[-1]))
    else:
        stats["growth_runs"] = stats.get("growth_runs", 0) + 1
        order = raw["species_order"]
        params = dict(case["model"].get("params", {}))
        vdivs = spec["vdiv"] * ndraw[3]
        # Euler product of the state dependent law evaluated on the reported rows: V_{k+1}/V_k = exp(g(row) dt) where the
        # rate may be evaluated on any state visited during the step: bound it by min/max over the two bracketing rows
        names = rm.expr_names(spec["growth"])
        if n >= 2 and abs(vols[1] - vols[0]) > slack * vols[0] and abs(vols[1] / vols[0] - 1) > 0:
            pass   # (a simulator that reports the post-step volume at the step time would be equally within one step)
        for k in range(1, n - 1):   # vols[1] is still the initial volume (reported before the first growth step)
            gs = []
            for kk in (k, k + 1):
                st = {s: float(rows[kk][order.index(s)]) for s in case["model"]["species"]}
                gs.append(rm.expr_eval(spec["growth"], st, params, grid[kk], 1.0))
            # species can move between the two rows: a monotone growth law in one species is bracketed by the row values
            glo, ghi = min(gs), max(gs)
            if not names["sp"]:
                glo = ghi = gs[0]
            r_ = vols[k + 1] / vols[k]
            if glo >= 0 and r_ < 1 - slack:
                bad("volume_decreased", row=k, ratio=float(r_))
                break
            if not names["sp"] and not names["t"]:
                g0 = gs[0]
                law = v0 * math.exp(g0 * grid[k + 1])
                rr = vols[k + 1] / law
                lo, hi = math.exp(-abs(g0) * dt) * (1 - slack), math.exp(abs(g0) * dt) * (1 + slack)
                if rr < lo or rr > hi:
                    bad("volume_off_the_growth_law", row=k + 1, volume=float(vols[k + 1]), law=law, allowed=[lo, hi])
                    break
        # vols[k+1] is the volume after growth step k (k >= 1), i.e. the one the division test of step k saw
        last_step_checked = (n - 2) if not divided else (n - 2)
        for k in range(1, n - 1):
            if vols[k + 1] > vdivs * (1 + slack):
                bad("division_missed", division_volume=vdivs, step=k, volume=float(vols[k + 1]), divided=divided)
                break
    if divided:
        stats["divided_runs"] = stats.get("divided_runs", 0) + 1
    return viols


def run_case(case):
    if case.get("_dist"):
        out = distoracle.run_dist_case(case, case["N"])
        return {"violations": out["violations"], "stats": out["stats"], "sig": None, "nontrivial": False,
                "digest": out["digest"]}
    raw = eng.execute(case)
    ls = eng.lockstep(case, raw)
    stats = dict(ls["stats"])
    viols = list(ls["violations"])
    ref = ls.get("ref")
    stats["mode_" + case["mode"]] = 1
    spec = case["vol"].get("spec") or {"kind": "const"}
    stats["vol_" + spec["kind"]] = 1
    if not raw.get("error"):
        viols += pathinv.check_rows(case, raw, stats)
        viols += volume_oracle(case, raw, stats)
    c06.fault_counters(case, raw, ref, stats)
    for k in ("early_division", "late_division"):
        if k in case.get("kinds", []):
            stats["fired_" + k] = 1
    nfire = sum(ref.n_fired) if ref is not None else 0
    stats["firings"] = nfire
    gs = getattr(ref, "growth_steps", 0) if ref is not None else 0
    stats["growth_steps"] = gs
    if ref is not None and ref.lambda_zero_seen and gs and spec["kind"] != "const":
        stats["fired_growth_while_silent"] = 1
    return {"violations": viols, "stats": stats, "sig": eng.event_signature(ref, case),
            "nontrivial": nfire >= 1 or gs >= 1, "digest": eng.digest(raw), "sim_time": case["grid"][-1]}


def crash_signature(case):
    return {"mode": case.get("mode", case.get("kind")), "safe": bool(case.get("safe"))}


def shrink(case):
    if case.get("_dist"):
        return
    for c in c06.shrink(case):
        if c.get("vol") and not c["vol"].get("spec") and case["vol"].get("spec"):
            continue
        yield c


def sample(case, res):
    return c06.sample(case, res)


def extra_phases(ctx):
    cfg = ctx["cfg"]
    return distoracle.run_phase(ctx, PROPERTY, "volume", cfg["dist_models"], cfg["dist_N"])


def reach_warnings(stats):
    out = []
    for k in ("fired_burst", "fired_stall", "fired_absorb", "fired_early_division", "fired_late_division",
              "fired_growth_while_silent", "mode_volume", "mode_delayvolume", "vol_const", "vol_time_threshold",
              "vol_state_dependent", "divided_runs", "division_expected", "dist_models"):
        if stats.get(k, 0) == 0:
            out.append(f"kind {k} never fired in this batch")
    return out


def finish_coverage(cov, stats, cfg):
    c06.finish_coverage(cov, stats, cfg)
