"""Protocol-free invariants over the reported rows of one stochastic run (DESIGN.md 4.2)."""
from fractions import Fraction
import itertools

import numpy as np

from . import refmodel as rm

_cache = {}


def generator_columns(model, mode):
    """List of distinct non-zero integer columns (as tuples in species order) a single event can add to the state."""
    sp = model["species"]
    cols = []
    for rxn in model["reactions"]:
        imm, dly = rm.stoich_columns(rxn)
        if mode in ("delay", "delayvolume") and any(dly.values()):
            cands = [imm, dly]
            net = dict(imm)
            for s, v in dly.items():
                net[s] = net.get(s, 0) + v
            # immediate delivery (delay <= 0) applies both at once: that is imm + dly, already a combination
        else:
            net = dict(imm)
            for s, v in dly.items():
                net[s] = net.get(s, 0) + v
            cands = [net]
        for c in cands:
            t = tuple(int(c.get(s, 0)) for s in sp)
            if any(t) and t not in cols:
                cols.append(t)
    return cols


def _rational_nullspace(rows):
    """Left-null-space basis (integer vectors) of the matrix whose columns are `rows` (list of tuples), exact."""
    if not rows:
        return None
    n = len(rows[0])
    # solve w . c = 0 for every column c  -> nullspace of matrix M (len(rows) x n)
    M = [[Fraction(x) for x in c] for c in rows]
    piv = []
    r = 0
    for col in range(n):
        pr = None
        for i in range(r, len(M)):
            if M[i][col] != 0:
                pr = i
                break
        if pr is None:
            continue
        M[r], M[pr] = M[pr], M[r]
        pv = M[r][col]
        M[r] = [x / pv for x in M[r]]
        for i in range(len(M)):
            if i != r and M[i][col] != 0:
                f = M[i][col]
                M[i] = [a - f * b for a, b in zip(M[i], M[r])]
        piv.append(col)
        r += 1
        if r == len(M):
            break
    free = [c for c in range(n) if c not in piv]
    basis = []
    for f in free:
        v = [Fraction(0)] * n
        v[f] = Fraction(1)
        for i, pc in enumerate(piv):
            v[pc] = -M[i][f]
        den = 1
        for x in v:
            den = den * x.denominator // np.gcd(den, x.denominator)
        basis.append([int(x * den) for x in v])
    return basis


def conservation_laws(model, mode):
    key = ("cons", repr(model["reactions"]), repr(model["species"]), mode)
    if key not in _cache:
        cols = generator_columns(model, mode)
        n = len(model["species"])
        if not cols:
            _cache[key] = [[1 if i == j else 0 for j in range(n)] for i in range(n)]
        else:
            _cache[key] = _rational_nullspace(cols)
    return _cache[key]


class Lattice:
    """Decides whether an integer vector is a non-negative integer combination of the generator columns."""

    def __init__(self, cols):
        self.cols = cols
        self.G = np.array(cols, dtype=float).T if cols else np.zeros((0, 0))
        self.full_rank = bool(cols) and np.linalg.matrix_rank(self.G) == len(cols)
        self.pinv = np.linalg.pinv(self.G) if self.full_rank else None
        self.memo = {}
        self.milp_calls = 0

    def member(self, delta):
        key = tuple(int(x) for x in delta)
        if not any(key):
            return True
        if key in self.memo:
            return self.memo[key]
        if not self.cols:
            ans = False
        elif self.full_rank:
            d = np.array(key, dtype=float)
            n = self.pinv @ d
            nr = np.rint(n)
            ans = bool(np.all(nr >= 0) and np.allclose(n, nr, atol=1e-6) and np.array_equal(self.G @ nr, d))
        else:
            ans = self._milp(key)
        self.memo[key] = ans
        return ans

    def _milp(self, key):
        from scipy.optimize import milp, LinearConstraint, Bounds
        self.milp_calls += 1
        d = np.array(key, dtype=float)
        k = len(self.cols)
        res = milp(c=np.ones(k), constraints=LinearConstraint(self.G, d, d), integrality=np.ones(k),
                   bounds=Bounds(0, np.inf))
        if res.status == 0 and res.x is not None:
            x = np.rint(res.x)
            return bool(np.all(x >= 0) and np.array_equal(self.G @ x, d))
        return False


def lattice_for(model, mode):
    key = ("lat", repr(model["reactions"]), repr(model["species"]), mode)
    if key not in _cache:
        if len(_cache) > 4000:
            _cache.clear()
        _cache[key] = Lattice(generator_columns(model, mode))
    return _cache[key]


def species_assigned_by_rules(model):
    return {r["target"] for r in model.get("rules", []) if r["target"] in model["species"]}


def has_delayed_reactants(model):
    return any(r.get("delay") and (r["delay"].get("reactants") or []) for r in model["reactions"])


def all_mass_action(model):
    return all(r["type"] == "massaction" for r in model["reactions"])


def time_dependent(model):
    for r in model["reactions"]:
        if r["type"] == "general" and rm.expr_names(r["pd"]["rate"])["t"]:
            return True
    return False


def check_rows(case, raw, stats):
    """Returns list of violations. `rows` are in the order raw['species_order']."""
    model, mode = case["model"], case["mode"]
    order = raw["species_order"]
    perm = [order.index(s) for s in model["species"]]
    rows = raw["rows"][:, perm]
    viols = []
    sig = {"mode": mode, "safe": bool(case.get("safe"))}
    n = rows.shape[0]
    ruled = species_assigned_by_rules(model)
    # 2. integrality
    if not ruled and not np.array_equal(rows, np.rint(rows)):
        k = int(np.argwhere(rows != np.rint(rows))[0][0])
        viols.append({"class": "non_integer_row", "signature": sig, "detail": {"row": k, "values": rows[k].tolist()}})
        return viols
    stats["rows_checked"] = stats.get("rows_checked", 0) + n
    if ruled:
        return viols
    # first row = initial condition
    x0 = [float(model["init"].get(s, 0)) for s in model["species"]]
    if n and case["grid"][0] == 0.0 and rows[0].tolist() != x0:
        viols.append({"class": "first_row_not_initial", "signature": sig, "detail": {"row0": rows[0].tolist(), "init": x0}})
    # 1. lattice membership
    lat = lattice_for(model, mode)
    for k in range(n - 1):
        d = rows[k + 1] - rows[k]
        if not lat.member(d):
            viols.append({"class": "row_change_not_a_reaction_combination", "signature": sig,
                          "detail": {"row": k, "from": rows[k].tolist(), "to": rows[k + 1].tolist(),
                                     "columns": lat.cols}})
            break
    stats["milp_fallbacks"] = stats.get("milp_fallbacks", 0) + lat.milp_calls
    lat.milp_calls = 0
    # 3. conservation
    laws = conservation_laws(model, mode)
    if laws:
        for w in laws:
            vals = rows @ np.array(w, dtype=float)
            if not np.all(vals == vals[0]):
                k = int(np.argwhere(vals != vals[0])[0][0])
                viols.append({"class": "conservation_law_broken", "signature": sig,
                              "detail": {"law": w, "row": k, "value0": float(vals[0]), "value": float(vals[k])}})
                break
        stats["conservation_laws_checked"] = stats.get("conservation_laws_checked", 0) + len(laws)
    # 4. non-negativity
    # delayed reactants that are not part of the rate law can legitimately overdraw (any simulator, unless safe mode
    # checks the full complement at firing time, which only the simulators without delay support can rely on)
    nonneg_applies = (all_mass_action(model) or bool(case.get("safe"))) and not \
        (has_delayed_reactants(model) and (mode in ("delay", "delayvolume") or not case.get("safe")))
    if nonneg_applies:
        stats["nonneg_runs"] = stats.get("nonneg_runs", 0) + 1
        if np.any(rows < 0):
            k = int(np.argwhere(rows < 0)[0][0])
            viols.append({"class": "negative_count", "signature": sig, "detail": {"row": k, "values": rows[k].tolist()}})
    # 5. absorption (plain / constant-volume modes, rule-free, time-independent)
    vs = (case.get("vol") or {}).get("spec")
    if mode in ("ssa", "volume") and not model.get("rules") and not time_dependent(model) and \
            (vs is None or vs.get("kind") == "const"):
        vol = (case.get("vol") or {}).get("v0") if mode == "volume" else None
        for k in range(n):
            st = {s: float(rows[k][i]) for i, s in enumerate(model["species"])}
            try:
                if case.get("safe"):
                    a = rm.safe_propensities(model, st, model["params"], 0.0, vol)
                else:
                    a = rm.propensities(model, st, model["params"], 0.0, vol, True)
            except (ZeroDivisionError, ValueError, OverflowError):
                break
            if any(x != x for x in a):
                break
            if all(x == 0 for x in a):
                stats["absorbed_runs"] = stats.get("absorbed_runs", 0) + 1
                if not np.all(rows[k:] == rows[k]):
                    j = int(np.argwhere(np.any(rows[k:] != rows[k], axis=1))[0][0]) + k
                    viols.append({"class": "absorbing_state_left", "signature": sig,
                                  "detail": {"row": k, "state": rows[k].tolist(), "later_row": j,
                                             "later": rows[j].tolist()}})
                break
    return viols
