"""One integer decides everything: SplitMix64 derivation of every per-case seed from VERIF_SEED."""
import hashlib
import random

MASK = (1 << 64) - 1


def splitmix64(x):
    x = (x + 0x9E3779B97F4A7C15) & MASK
    z = x
    z = ((z ^ (z >> 30)) * 0xBF58476D1CE4E5B9) & MASK
    z = ((z ^ (z >> 27)) * 0x94D049BB133111EB) & MASK
    return z ^ (z >> 31)


def _label_int(label):
    if isinstance(label, int):
        return label & MASK
    return int.from_bytes(hashlib.sha256(str(label).encode()).digest()[:8], "big")


def derive(seed, *labels):
    """Deterministic 64-bit child seed, independent of PYTHONHASHSEED."""
    x = splitmix64(seed & MASK)
    for lab in labels:
        x = splitmix64(x ^ _label_int(lab))
    return x


def rng(seed, *labels):
    return random.Random(derive(seed, *labels))


def bioscrape_seed(seed, *labels):
    """A non-zero 64-bit seed for py_seed_random (0 would mean 'wall clock')."""
    s = derive(seed, "bioscrape", *labels)
    return s if s != 0 else 1
