"""C20 - the delay queue delivers each entry once, in order, at the nearest grid time.

Engine `queue`: seeded single-client operation histories on the real ArrayDelayQueue against a reference multiset
model with unique tags (DESIGN.md 4.12).
"""
import hashlib
import math

import numpy as np

from simkit import seeds, trace as tr

PROPERTY = "C20"
TITLE = "delay queue: exactly-once, in order, nearest slot"
LEVEL = "exploration"
RULE = ("case = seeded history (<= 60 ops) over {add(reaction, requested time, amount), read-and-advance, copy, "
        "binomial partition} on 1..2 reactions x 2..4 slots x dt in {1/8..1} x start times, interleaved over the "
        "original, its copies and its parts; non-trivial = history with >= 1 add and >= 1 advance; distinct = distinct "
        "(configuration, operation sequence) hashes")
ASSUMPTIONS = [
    "requested times are never within 1e-3*dt of a slot midpoint (the statement excludes exact half-way requests)",
    "py_set_current_time is only used on an empty queue (re-basing pending entries is not covered by the statement)",
    "amounts are small positive integers; pending content is observed by draining a py_copy of the queue, and py_copy is "
    "itself checked by letting original and copy diverge",
]
COMPONENTS = {"real": ["bioscrape.simulator.ArrayDelayQueue (compiled from the working tree)",
                       "bioscrape.random (binomial partition; scripted/traced through the H1 seam)"],
              "stub": []}
TIERS = {
    "quick": {"cases": 60000, "block": 500, "case_timeout": 20.0},
    "thorough": {"cases": 20000000, "block": 5000, "case_timeout": 60.0},
}

FRACS = [0.0, 0.125, -0.125, 0.25, -0.25, 0.375, -0.375, 0.45, -0.45, 0.499, -0.499]
HUGE = [2147483647.75, 2147483648.25, 3.0e9, 4294967296.25, 1.0e12, 1.0e15, 9.3e18, 1.0e30]


def gen_case(case_seed, cfg):
    r = seeds.rng(case_seed, "gen")
    R = r.choice([1, 2])
    slots = r.choice([2, 3, 4])
    dt = r.choice([0.125, 0.25, 0.5, 1.0])
    start = r.choice([0.0, 0.0, dt, 3 * dt, 0.375, 1.0, 2.5, 7.0, 100.0, 1024.0, -1.0])
    start_via = r.choice(["ctor", "set", "setup"])
    if start_via == "setup":
        start = 0.0
    n_ops = r.choice([3, 5, 8, 12, 20, 30, 45, 60])
    # swarm: per-case enabled kinds
    en_copy = r.random() < 0.5
    en_part = r.random() < 0.4
    en_huge = r.random() < 0.15
    en_past = r.random() < 0.6
    en_beyond = r.random() < 0.7
    p_adv = r.choice([0.2, 0.35, 0.5])
    ops = []
    for _ in range(n_ops):
        u = r.random()
        inst = r.randrange(8)
        if u < p_adv:
            ops.append(["adv", inst])
        elif u < p_adv + 0.06 and en_copy:
            ops.append(["copy", inst])
        elif u < p_adv + 0.11 and en_part:
            mode = r.choice(["seeded", "seeded", "all_first", "all_second", "alternate"])
            ops.append(["part", inst, r.choice([0.5, 0.5, 0.25, 0.1, 0.9, 0.7]), mode])
        else:
            rx = r.randrange(R)
            v = r.random()
            if en_huge and v < 0.1:
                off = r.choice(HUGE)
            elif en_past and v < 0.25:
                off = -r.choice([0.3, 0.75, 1.0, 2.25, 10.0, 1000.0])
            elif en_beyond and v < 0.45:
                off = (slots - 1) + r.choice([0.6, 1.0, 1.25, 3.0, 17.5, 1000.25])
            else:
                off = r.randrange(slots) + r.choice(FRACS)
            amt = r.choice([1, 1, 1, 1, 2, 3])
            ops.append(["add", inst, rx, off, amt])
    return {"R": R, "slots": slots, "dt": dt, "start": start, "start_via": start_via, "ops": ops,
            "bseed": seeds.bioscrape_seed(case_seed, "part")}


class RefQueue:
    """Reference model: per slot offset a list of tags (tag id, reaction, amount, expected slot time)."""

    def __init__(self, R, slots, dt, nqt):
        self.R, self.n, self.dt, self.nqt = R, slots, dt, nqt
        self.pending = [[] for _ in range(slots)]

    def clone(self):
        q = RefQueue(self.R, self.n, self.dt, self.nqt)
        q.pending = [list(s) for s in self.pending]
        return q

    def slot_for(self, t):
        x = (t - self.nqt) / self.dt
        if x <= 0:
            return 0
        if x >= self.n - 1:
            return self.n - 1
        return int(math.floor(x + 0.5))

    def add(self, tag, rx, t, amt):
        i = self.slot_for(t)
        self.pending[i].append((tag, rx, amt, self.nqt + i * self.dt))
        return i

    def counts(self, i):
        c = [0.0] * self.R
        for (_, rx, amt, _) in self.pending[i]:
            c[rx] += amt
        return c

    def advance(self):
        out = self.pending.pop(0)
        self.pending.append([])
        self.nqt += self.dt
        return out

    def matrix(self):
        return [self.counts(i) for i in range(self.n)]


def _drain_matrix(q, R, n):
    """Non-destructive observation: drain a copy for n slots. Returns (times, counts per slot)."""
    c = q.py_copy()
    times, mat = [], []
    for _ in range(n):
        times.append(c.py_get_next_queue_time())
        a = np.zeros(R)
        c.py_get_next_reactions(a)
        mat.append(a.tolist())
        c.py_advance_time()
    return times, mat


def _primary(kinds):
    for k in ("beyond_int32", "beyond", "past", "inside", "part"):
        if k in kinds:
            return k
    return "none"


def _kind_of(off, slots):
    if off >= 2147483647:
        return "beyond_int32"
    if off < 0:
        return "past"
    if off > slots - 1 + 0.5:
        return "beyond"
    return "inside"


def run_case(case):
    from bioscrape.simulator import ArrayDelayQueue
    import bioscrape.random as R_
    R, n, dt = case["R"], case["slots"], case["dt"]
    log = hashlib.sha256()
    viols = []
    stats = {"ops": 0, "adds": 0, "advances": 0, "copies": 0, "partitions": 0,
             "fired_past": 0, "fired_beyond": 0, "fired_beyond_int32": 0, "fired_wrap": 0,
             "fired_same_slot_many": 0, "fired_part_nonempty": 0, "fired_copy_diverge": 0}

    def bad(cls, sig, **detail):
        if len(viols) < 5:
            viols.append({"class": cls, "signature": sig, "detail": detail})

    R_.py_seed_random(case["bseed"])
    if case["start_via"] == "ctor":
        q0 = ArrayDelayQueue(np.zeros((R, n)), dt, case["start"])
    elif case["start_via"] == "set":
        q0 = ArrayDelayQueue.setup_queue(R, n, dt)
        q0.py_set_current_time(case["start"])
    else:
        q0 = ArrayDelayQueue.setup_queue(R, n, dt)
    insts = [[q0, RefQueue(R, n, dt, case["start"] + dt), 0]]  # [real, model, advances]
    tag = 0
    tag_kind = {}
    n_add = n_adv = 0

    def check_advance(inst, where):
        q, m = inst[0], inst[1]
        t = q.py_get_next_queue_time()
        a = np.zeros(R)
        q.py_get_next_reactions(a)
        q.py_advance_time()
        exp_t = m.nqt
        exp = m.counts(0)
        got = a.tolist()
        out = m.advance()
        inst[2] += 1
        log.update(repr((where, t, got)).encode())
        if t != exp_t:
            bad("next_time", {"where": where}, expected=exp_t, got=t)
        if got != exp:
            kinds = sorted({tag_kind.get(tg, "?") for (tg, _, _, _) in out})
            # which kinds of requests are pending elsewhere (a misplaced entry shows up as missing here or extra later)
            allk = sorted({tag_kind.get(tg, "?") for s in m.pending for (tg, _, _, _) in s} | set(kinds))
            bad("delivery_mismatch", {"request_kind": _primary(allk)}, where=where, kinds=allk, slot_time=exp_t,
                expected=exp, got=got)
        return got

    for op in case["ops"]:
        stats["ops"] += 1
        inst = insts[op[1] % len(insts)]
        q, m = inst[0], inst[1]
        if op[0] == "add":
            _, _, rx, off, amt = op
            rx = rx % R
            t = m.nqt + off * dt
            kind = _kind_of(off, n)
            tag += 1
            tag_kind[tag] = kind
            i = m.add(tag, rx, t, amt)
            q.py_add_reaction(t, rx, float(amt))
            n_add += 1
            stats["adds"] += 1
            stats["fired_" + kind] = stats.get("fired_" + kind, 0) + 1
            if len([1 for x in m.pending[i] if x[1] == rx]) >= 3:
                stats["fired_same_slot_many"] += 1
            log.update(repr(("add", rx, t, amt)).encode())
        elif op[0] == "adv":
            check_advance(inst, "adv")
            n_adv += 1
            stats["advances"] += 1
            if inst[2] == n + 1:
                stats["fired_wrap"] += 1
        elif op[0] == "copy":
            _, real_before = _drain_matrix(q, R, n)
            if real_before != m.matrix():
                allk = sorted({tag_kind.get(tg, "?") for sl in m.pending for (tg, _, _, _) in sl})
                bad("delivery_mismatch", {"request_kind": _primary(allk)}, where="observe", kinds=allk,
                    expected=m.matrix(), got=real_before)
                break
            c = q.py_copy()
            insts.append([c, m.clone(), inst[2]])
            stats["copies"] += 1
            if any(m.pending):
                stats["fired_copy_diverge"] += 1
            # immediate observation: equal pending content and next time
            if c.py_get_next_queue_time() != q.py_get_next_queue_time():
                bad("copy_next_time", {}, original=q.py_get_next_queue_time(), copy=c.py_get_next_queue_time())
            _, mat_c = _drain_matrix(c, R, n)
            if mat_c != m.matrix():
                bad("copy_content", {}, expected=m.matrix(), got=mat_c)
            log.update(repr(("copy", mat_c)).encode())
        elif op[0] == "part":
            _, _, p, mode = op
            before = m.matrix()
            _, real_before = _drain_matrix(q, R, n)
            if real_before != before:
                allk = sorted({tag_kind.get(tg, "?") for sl in m.pending for (tg, _, _, _) in sl})
                bad("delivery_mismatch", {"request_kind": _primary(allk)}, where="observe", kinds=allk,
                    expected=before, got=real_before)
                break
            total = int(sum(sum(row) for row in before))
            if mode == "all_first":
                R_.py_verif_script(np.full(max(total, 1) + 4, 1e-9))
            elif mode == "all_second":
                R_.py_verif_script(np.full(max(total, 1) + 4, 1 - 1e-9))
            elif mode == "alternate":
                R_.py_verif_script(np.array([1e-9, 1 - 1e-9] * (total // 2 + 3)))
            R_.py_verif_trace_start(4096 + 8 * (total + n * R), 1)
            parts = q.py_binomial_partition(p)
            flat, dropped = R_.py_verif_trace_stop()
            R_.py_verif_script(np.zeros(0))
            recs = [r for r in tr.decode(flat) if r[0] == "B"]
            stats["partitions"] += 1
            if total > 0:
                stats["fired_part_nonempty"] += 1
            q1, q2 = parts[0], parts[1]
            t1, m1 = _drain_matrix(q1, R, n)
            t2, m2 = _drain_matrix(q2, R, n)
            _, m0 = _drain_matrix(q, R, n)
            log.update(repr(("part", p, m1, m2)).encode())
            if m0 != before:
                bad("partition_original_changed", {}, before=before, after=m0)
            ok = True
            for i in range(n):
                for rx in range(R):
                    a, b = m1[i][rx], m2[i][rx]
                    if a < 0 or b < 0 or a != int(a) or b != int(b) or a + b != before[i][rx]:
                        ok = False
            if not ok:
                bad("partition_sum", {}, original=before, part1=m1, part2=m2)
            if t1[0] != m.nqt or t2[0] != m.nqt:
                bad("partition_next_time", {}, expected=m.nqt, got=[t1[0], t2[0]])
            # traced binomial arguments: multiset of (N, p) must equal the pending counts with the given p
            if not dropped:
                want = sorted((float(before[i][rx]), p) for i in range(n) for rx in range(R))
                got = sorted((float(r[1]), r[2]) for r in recs)
                # entries with N == 0 may legitimately be skipped by an implementation
                want_nz = [w for w in want if w[0] > 0]
                got_nz = [g for g in got if g[0] > 0]
                if want_nz != got_nz:
                    bad("partition_trace", {}, expected=want_nz, got=got_nz)
                if mode == "all_first" and ok and m2 != [[0.0] * R for _ in range(n)]:
                    bad("partition_law", {"mode": mode}, part1=m1, part2=m2)
                if mode == "all_second" and ok and m1 != [[0.0] * R for _ in range(n)]:
                    bad("partition_law", {"mode": mode}, part1=m1, part2=m2)
            # continue the history on the parts: their reference models come from the observed (checked) split
            for qq, mm in ((q1, m1), (q2, m2)):
                ref = RefQueue(R, n, dt, m.nqt)
                for i in range(n):
                    for rx in range(R):
                        if mm[i][rx] > 0:
                            tag += 1
                            tag_kind[tag] = "part"
                            ref.pending[i].append((tag, rx, mm[i][rx], m.nqt + i * dt))
                insts.append([qq, ref, inst[2]])
        if len(insts) > 8:
            insts = insts[:8]
        if viols:
            break

    # final drain of every instance: everything pending is delivered exactly once at its slot; then nothing more
    for k, inst in enumerate(insts):
        if viols:
            break
        for _ in range(n):
            check_advance(inst, "drain")
        for _ in range(n):
            got = check_advance(inst, "post_drain")
            if any(g != 0 for g in got):
                bad("delivered_twice", {}, got=got)
        if inst[2] > n:
            stats["fired_wrap"] += 0
    nontrivial = n_add >= 1 and n_adv >= 1
    sig = repr((R, n, dt, case["start"], case["start_via"], case["ops"]))
    return {"violations": viols, "stats": stats, "sig": sig, "nontrivial": nontrivial,
            "digest": log.hexdigest(), "sim_time": dt * (n_adv + 2 * n * len(insts))}


def shrink(case):
    ops = case["ops"]
    # drop chunks, then single ops
    n = len(ops)
    size = max(1, n // 2)
    while size >= 1:
        for i in range(0, n, size):
            c = dict(case)
            c["ops"] = ops[:i] + ops[i + size:]
            if len(c["ops"]) < n:
                yield c
        size //= 2
    # simplify arguments
    for i, op in enumerate(ops):
        if op[0] == "add":
            for off in (0.0, float(int(op[3])) if abs(op[3]) < 1e6 else 3.0e9):
                if off != op[3]:
                    c = dict(case)
                    c["ops"] = ops[:i] + [[op[0], op[1], op[2], off, 1]] + ops[i + 1:]
                    yield c
            if op[4] != 1:
                c = dict(case)
                c["ops"] = ops[:i] + [[op[0], op[1], op[2], op[3], 1]] + ops[i + 1:]
                yield c
        if op[1] != 0:
            c = dict(case)
            c["ops"] = ops[:i] + [[op[0], 0] + list(op[2:])] + ops[i + 1:]
            yield c
    if case["R"] > 1:
        c = dict(case)
        c["R"] = 1
        yield c
    if case["slots"] > 2:
        c = dict(case)
        c["slots"] = case["slots"] - 1
        yield c
    if case["start"] != 0.0 or case["start_via"] != "setup":
        c = dict(case)
        c["start"] = 0.0
        c["start_via"] = "setup"
        yield c
    if case["dt"] != 1.0:
        c = dict(case)
        c["dt"] = 1.0
        yield c


def sample(case, res):
    return {"R": case["R"], "slots": case["slots"], "dt": case["dt"], "start": case["start"],
            "start_via": case["start_via"], "ops": case["ops"][:12], "n_ops": len(case["ops"])}


def reach_warnings(stats):
    out = []
    for k in ("fired_past", "fired_beyond", "fired_beyond_int32", "fired_wrap", "fired_same_slot_many",
              "fired_part_nonempty", "fired_copy_diverge"):
        if stats.get(k, 0) == 0:
            out.append(f"fault/schedule kind {k} never fired in this batch")
    return out


def finish_coverage(cov, stats, cfg):
    cov["fault_kinds"] = {k[6:]: {"fired": v} for k, v in stats.items() if k.startswith("fired_")}
    cov["operations"] = stats.get("ops", 0)
