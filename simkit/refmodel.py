"""Reference semantics written from the documentation / property statements (not from the .pyx):
closed-form propensities, stoichiometry from the reaction tuples, rule semantics, expression evaluation.

Model description ("shadow", plain JSON-able data):
  {'species': [names], 'init': {name: value}, 'params': {name: value},
   'reactions': [{'reactants': [...], 'products': [...], 'type': str, 'pd': {...},
                  'delay': None | {'type': 'fixed'|'gaussian'|'gamma', 'reactants': [...], 'products': [...], 'pd': {...}}}],
   'rules': [{'type': 'assignment'|'additive'|'ode', 'target': name, 'expr': <expr tree> | [species...], 'freq': ...}]}
Numeric entries in 'pd' are literal parameter values; string entries name a parameter in 'params'.
General rates carry 'pd': {'rate': <expr tree>}.
"""
import math


# ------------------------------------------------------------------ expressions
def expr_str(e):
    k = e[0]
    if k == "num":
        return repr(float(e[1]))
    if k in ("sp", "par"):
        return e[1]
    if k == "t":
        return "t"
    if k == "vol":
        return "volume"
    if k in ("+", "*"):
        return "(" + (" " + k + " ").join(expr_str(a) for a in e[1:]) + ")"
    if k in ("-", "/"):
        return "(" + expr_str(e[1]) + " " + k + " " + expr_str(e[2]) + ")"
    if k == "^":
        return "(" + expr_str(e[1]) + ")^(" + expr_str(e[2]) + ")"
    if k == "neg":      # unary minus written directly in front of its operand: -(x)^(n) means -((x)^(n))
        return "-" + expr_str(e[1])
    if k in ("exp", "log", "abs"):
        return k + "(" + expr_str(e[1]) + ")"
    if k == "heaviside":
        return "Heaviside(" + expr_str(e[1]) + ")"
    if k in ("min", "max"):
        return ("Min" if k == "min" else "Max") + "(" + ", ".join(expr_str(a) for a in e[1:]) + ")"
    raise ValueError(k)


def expr_eval(e, state, params, t=0.0, vol=1.0):
    k = e[0]
    if k == "num":
        return float(e[1])
    if k == "sp":
        return state[e[1]]
    if k == "par":
        return params[e[1]]
    if k == "t":
        return t
    if k == "vol":
        return vol
    if k == "+":
        s = 0.0
        for a in e[1:]:
            s += expr_eval(a, state, params, t, vol)
        return s
    if k == "*":
        s = 1.0
        for a in e[1:]:
            s *= expr_eval(a, state, params, t, vol)
        return s
    if k == "-":
        return expr_eval(e[1], state, params, t, vol) - expr_eval(e[2], state, params, t, vol)
    if k == "/":
        return expr_eval(e[1], state, params, t, vol) / expr_eval(e[2], state, params, t, vol)
    if k == "^":
        return expr_eval(e[1], state, params, t, vol) ** expr_eval(e[2], state, params, t, vol)
    if k == "neg":
        return -expr_eval(e[1], state, params, t, vol)
    if k == "exp":
        return math.exp(expr_eval(e[1], state, params, t, vol))
    if k == "log":
        return math.log(expr_eval(e[1], state, params, t, vol))
    if k == "abs":
        return abs(expr_eval(e[1], state, params, t, vol))
    if k == "heaviside":
        return 1.0 if expr_eval(e[1], state, params, t, vol) >= 0 else 0.0
    if k == "min":
        return min(expr_eval(a, state, params, t, vol) for a in e[1:])
    if k == "max":
        return max(expr_eval(a, state, params, t, vol) for a in e[1:])
    raise ValueError(k)


def expr_names(e, out=None):
    out = out if out is not None else {"sp": set(), "par": set(), "t": False, "vol": False}
    k = e[0]
    if k == "sp":
        out["sp"].add(e[1])
    elif k == "par":
        out["par"].add(e[1])
    elif k == "t":
        out["t"] = True
    elif k == "vol":
        out["vol"] = True
    elif k != "num":
        for a in e[1:]:
            expr_names(a, out)
    return out


# ------------------------------------------------------------------ propensities
def _pv(pd, key, params):
    v = pd[key]
    if isinstance(v, str):
        return params[v]
    return float(v)


def propensity(rxn, state, params, t=0.0, vol=None, stochastic=True):
    """Closed-form rate of one reaction. state: dict name->count; vol None = no volume in play."""
    typ = rxn["type"]
    pd = rxn["pd"]
    V = 1.0 if vol is None else vol
    if typ == "massaction":
        k = _pv(pd, "k", params)
        sp = rxn.get("prop_species")
        if sp is None:
            sp = rxn["reactants"]
        r = len(sp)
        a = k
        if stochastic:
            seen = {}
            for s in sp:
                j = seen.get(s, 0)
                a *= max(state[s] - j, 0.0)
                seen[s] = j + 1
        else:
            for s in sp:
                a *= state[s]
        if vol is not None:
            if r == 0:
                a = a * V
            else:
                a = a / (V ** (r - 1))
        return a
    if typ in ("hillpositive", "hillnegative", "proportionalhillpositive", "proportionalhillnegative"):
        k = _pv(pd, "k", params)
        K = _pv(pd, "K", params)
        n = _pv(pd, "n", params)
        x = state[pd["s1"]] / V
        h = (x / K) ** n
        if typ.endswith("positive"):
            a = k * h / (1 + h)
        else:
            a = k / (1 + h)
        if typ.startswith("proportional"):
            a = a * state[pd["d"]]
        return a
    if typ == "general":
        return expr_eval(pd["rate"], state, params, t, V)
    raise ValueError(typ)


def _real(a):
    """Rates are only specified on the non-negative domain: anything complex / undefined becomes NaN."""
    if isinstance(a, complex):
        return float("nan")
    return a


def propensities(model, state, params, t=0.0, vol=None, stochastic=True):
    out = []
    for r in model["reactions"]:
        try:
            out.append(_real(propensity(r, state, params, t, vol, stochastic)))
        except (ValueError, ZeroDivisionError, OverflowError, TypeError):
            out.append(float("nan"))
    return out


def consumption(rxn):
    """Maximum amount of each species the reaction can consume (immediate and delayed parts; safe-mode complement)."""
    imm, dly = stoich_columns(rxn)
    need = {}
    for s in set(imm) | set(dly):
        a, b = imm.get(s, 0), dly.get(s, 0)
        if a < 0 and b < 0:
            need[s] = -(a + b)
        elif a < 0 or b < 0:
            need[s] = -min(a, b)
    return need


def safe_propensities(model, state, params, t=0.0, vol=None):
    """Safe-mode stochastic propensities: zero unless the full complement of consumed species is present; negative -> 0."""
    out = []
    for r in model["reactions"]:
        need = consumption(r)
        if any(state[s] < n for s, n in need.items()):
            out.append(0.0)
            continue
        try:
            a = _real(propensity(r, state, params, t, vol, True))
        except (ValueError, ZeroDivisionError, OverflowError, TypeError):
            a = float("nan")
        out.append(a if (a != a or a >= 0) else 0.0)
    return out


# ------------------------------------------------------------------ stoichiometry
def _count(lst):
    d = {}
    for s in lst:
        if s is None or s == "":
            continue
        d[s] = d.get(s, 0) + 1
    return d


def stoich_columns(rxn):
    """(immediate, delayed) net change dicts of one reaction: products minus reactants with multiplicity."""
    imm = {}
    for s, c in _count(rxn["products"]).items():
        imm[s] = imm.get(s, 0) + c
    for s, c in _count(rxn["reactants"]).items():
        imm[s] = imm.get(s, 0) - c
    dly = {}
    d = rxn.get("delay")
    if d:
        for s, c in _count(d.get("products") or []).items():
            dly[s] = dly.get(s, 0) + c
        for s, c in _count(d.get("reactants") or []).items():
            dly[s] = dly.get(s, 0) - c
    return imm, dly


def stoich_matrices(model):
    sp = model["species"]
    idx = {s: i for i, s in enumerate(sp)}
    R = len(model["reactions"])
    S_imm = [[0] * R for _ in sp]
    S_del = [[0] * R for _ in sp]
    for j, r in enumerate(model["reactions"]):
        imm, dly = stoich_columns(r)
        for s, c in imm.items():
            S_imm[idx[s]][j] = c
        for s, c in dly.items():
            S_del[idx[s]][j] = c
    return S_imm, S_del


def apply_column(state, col, mult=1):
    for s, c in col.items():
        if c:
            state[s] = state[s] + mult * c


# ------------------------------------------------------------------ rules
def rule_fires(rule, t, rule_step):
    f = rule.get("freq", "repeated")
    if rule["type"] == "ode":
        f = "dt"
    if f in ("repeated", "repeat"):
        return True
    if f == "dt":
        return bool(rule_step)
    if f == "start":
        return t == 0.0
    return t == float(f)


def apply_rules(model, state, params, t, rule_step, dt, vol=None):
    """Apply every rule whose schedule says so, in declaration order. Mutates state / params."""
    V = 1.0 if vol is None else vol
    for rule in model.get("rules", []):
        if not rule_fires(rule, t, rule_step):
            continue
        apply_rule(rule, state, params, t, dt, V)


def apply_rule(rule, state, params, t, dt, V=1.0):
    tgt = rule["target"]
    if rule["type"] == "additive":
        s = 0.0
        for x in rule["expr"]:
            s += state[x]
        state[tgt] = s
        return
    val = expr_eval(rule["expr"], state, params, t, V)
    is_param = tgt in params and tgt not in state
    if rule["type"] == "assignment":
        if is_param:
            params[tgt] = val
        else:
            state[tgt] = val
    elif rule["type"] == "ode":
        if is_param:
            params[tgt] = params[tgt] + val * dt
        else:
            state[tgt] = state[tgt] + val * dt
    else:
        raise ValueError(rule["type"])


def rule_tuple(rule):
    if rule["type"] == "additive":
        eq = rule["target"] + " = " + " + ".join(rule["expr"])
        return ("additive", {"equation": eq}, rule.get("freq", "repeated"))
    if rule["type"] == "assignment":
        eq = rule["target"] + " = " + expr_str(rule["expr"])
        return ("assignment", {"equation": eq}, rule.get("freq", "repeated"))
    if rule["type"] == "ode":
        return ("ode", {"equation": expr_str(rule["expr"]), "target": rule["target"]}, "dt")
    raise ValueError(rule["type"])


# ------------------------------------------------------------------ to bioscrape
def reaction_tuple(rxn):
    pd = {}
    for k, v in rxn["pd"].items():
        if k == "rate":
            pd[k] = expr_str(v)
        else:
            pd[k] = v
    if rxn["type"] == "massaction" and rxn.get("prop_species") is not None:
        pd["species"] = "*".join(rxn["prop_species"])
    d = rxn.get("delay")
    if d:
        return (list(rxn["reactants"]), list(rxn["products"]), rxn["type"], pd,
                d["type"], list(d.get("reactants") or []), list(d.get("products") or []), dict(d["pd"]))
    return (list(rxn["reactants"]), list(rxn["products"]), rxn["type"], pd)


def to_bioscrape(model, cls=None, **kw):
    from bioscrape.types import Model
    cls = cls or Model
    tuples = []
    for r in model["reactions"]:
        t = reaction_tuple(r)
        if r["type"] == "massaction":
            # reactions with the same mass-action parameters share one dictionary object, as a caller re-using a dict would
            for u in tuples:
                if u[2] == "massaction" and u[3] == t[3] and "species" not in t[3]:
                    t = t[:3] + (u[3],) + t[4:]
                    break
        tuples.append(t)
    return cls(species=list(model["species"]),
               reactions=tuples,
               parameters=[(k, v) for k, v in model.get("params", {}).items()],
               rules=[rule_tuple(r) for r in model.get("rules", [])],
               initial_condition_dict=dict(model["init"]), **kw)


def delay_params(rxn, params):
    d = rxn.get("delay")
    if not d:
        return None
    return {k: _pv(d["pd"], k, params) for k in d["pd"]}


def close(a, b, rel=1e-12, abs_=1e-300):
    if a == b:
        return True
    if a != a or b != b:
        return False
    return abs(a - b) <= max(rel * max(abs(a), abs(b)), abs_)


def vec_close(a, b, rel=1e-12):
    return len(a) == len(b) and all(close(x, y, rel) for x, y in zip(a, b))
