"""C17 - copies and pickles of models and results behave like the original (DESIGN.md 4.10)."""
from simkit import history, seeds
from checks import c08

PROPERTY = "C17"
LEVEL = "exploration"
RULE = ("case = seeded history over the C08 alphabet plus restart operations {pickle (protocols 2-5), deepcopy} at arbitrary "
        "points (initialised or not, before/after simulations and edits, copies of copies): the restored object replaces the live "
        "one; at every restart original and restored are compared behaviourally (dictionaries, stoichiometry, rate laws at sampled "
        "states in deterministic / volume / stochastic / stochastic-volume / safe form, delay draws under a common seed, seeded "
        "simulations in three modes) and an independence check edits one of the two; lineage models, cell states, schnitzes and "
        "lineages are covered by the lineage part; non-trivial = history with >= 1 restart; distinct = distinct op-kind sequences")
ASSUMPTIONS = c08.ASSUMPTIONS + [
    "stochastic rate forms are observed through a forced one-firing run of the real simulator (traced weight vector)",
]
COMPONENTS = {"real": ["bioscrape.types.Model __getstate__/__setstate__, auto-pickled Term / Propensity / Delay / Rule classes",
                       "copy.deepcopy, pickle protocols 2-5", "all simulators through py_simulate_model",
                       "lineage.LineageModel and result classes (lineage part)"], "stub": []}
TIERS = {
    "quick": {"cases": 3000, "block": 60, "case_timeout": 60.0},
    "thorough": {"cases": 80000, "block": 150, "case_timeout": 90.0},
}
ALPHABET = (["add_species", "add_reaction", "add_reaction", "create_parameter", "set_parameter", "set_params", "set_species",
             "create_rule", "initialize", "build_interface", "simulate", "simulate", "seed", "probe",
             "restart_pickle", "restart_pickle", "restart_pickle", "restart_copy", "restart_copy", "restart_copy"])


def gen_case(case_seed, cfg):
    r = seeds.rng(case_seed, "c17")
    kind = "lineage" if r.random() < cfg.get("lineage_share", 0.0) else "plain"
    n_ops = r.choice([2, 4, 6, 10, 16, 24])
    base, ops = history.gen_history(r, n_ops, ALPHABET)
    if not any(o[0].startswith("restart") for o in ops):
        ops.insert(len(ops) - 1, ["restart_pickle", 4, "set_parameter", "restored"])
    return {"base": base, "ops": ops, "stratum": kind, "pseed": seeds.derive(case_seed, "p")}


def run_case(case):
    out = c08.run_case(case)
    kinds = [o[0] for o in case["ops"]]
    out["nontrivial"] = any(k.startswith("restart") for k in kinds)
    rs = [x for x in case["base"]["reactions"]] + [o[1] for o in case["ops"] if o[0] == "add_reaction"]
    for rx in rs:
        out["stats"]["ptype_" + rx["type"]] = out["stats"].get("ptype_" + rx["type"], 0) + 1
        if rx.get("delay"):
            out["stats"]["dtype_" + rx["delay"]["type"]] = out["stats"].get("dtype_" + rx["delay"]["type"], 0) + 1
    return out


crash_signature = c08.crash_signature
shrink = c08.shrink
sample = c08.sample


def reach_warnings(stats):
    out = []
    for k in ("restarts", "op_restart_pickle", "op_restart_deepcopy", "independence_checks", "stochastic_forms_compared",
              "restart_seeded_comparisons", "ptype_massaction", "ptype_general", "ptype_hillpositive", "ptype_hillnegative",
              "ptype_proportionalhillpositive", "ptype_proportionalhillnegative", "dtype_fixed", "dtype_gaussian", "dtype_gamma"):
        if stats.get(k, 0) == 0:
            out.append(f"kind {k} never fired in this batch")
    return out


finish_coverage = c08.finish_coverage
