"""C10 - delayed reactions deliver their delayed part exactly once, after the delay (DESIGN.md 4.6)."""
import hashlib

import numpy as np

from simkit import distoracle, pathinv, refmodel as rm, seeds, ssaengine as eng
from checks import c06

PROPERTY = "C10"
LEVEL = "exploration"
RULE = ("case = seeded network with delayed products / marker-style delayed reactants x delay family (fixed, Gaussian, "
        "Gamma k>=1) with scales from dt/50 to 3x the horizon (and a far-beyond stratum up to 1e12) x grid x "
        "{delay SSA, delay+volume SSA, and the two simulators without delay support} x seeded/scripted stream "
        "(neg_delay, tiny, late, burst, stall); lock-step with a reference queue + protocol-free accounting "
        "fired = delivered + still queued from the public API; non-trivial = run with >= 1 firing of a delayed reaction; "
        "distinct = distinct per-interval (event kind, reaction) signatures. Zero-delay clause: CME goodness of fit "
        "(coverage.distribution_tests)")
ASSUMPTIONS = c06.ASSUMPTIONS + [
    "delayed reactants are generated marker-style (produced by the immediate part of the same reaction) so that counts stay "
    "non-negative; arbitrary delayed reactants would leave the domain in which rates are specified",
    "'to the resolution of the time grid': a delivery takes effect in the slot nearest to t_fire + delay; the row at that "
    "very grid time may or may not show it yet",
]
COMPONENTS = c06.COMPONENTS
TIERS = {
    "quick": {"cases": 20000, "block": 200, "case_timeout": 30.0, "dist_models": 26, "dist_N": 40000},
    "thorough": {"cases": 500000, "block": 500, "case_timeout": 60.0, "dist_models": 130, "dist_N": 400000},
}
MODES = ["delay"] * 6 + ["delayvolume"] * 2 + ["ssa", "volume"]


def gen_delay_law_case(case_seed):
    """A -> (delay) B with every firing within ~0.05 time units of t = 0: B(t)/N then traces the delay law's CDF."""
    r = seeds.rng(case_seed, "delaylaw")
    fam = r.choice(["fixed", "gaussian", "gamma", "gamma", "gamma"])
    if fam == "fixed":
        pd = {"delay": r.choice([0.75, 2.0, 3.25, 6.5])}
    elif fam == "gaussian":
        pd = {"mean": r.choice([0.5, 2.0, 4.0]), "std": r.choice([0.5, 1.0, 2.0])}
    else:
        pd = {"k": r.choice([1.0, 1.0, 1.0, 2.0, 2.5, 4.0]), "theta": r.choice([0.25, 0.5, 1.0, 2.0, 5.0])}
    params = {}
    for key in list(pd):
        if r.random() < 0.4:
            params["dp_" + key] = pd[key]
            pd[key] = "dp_" + key
    return {"_delaylaw": True, "family": fam, "pd": pd, "params": params, "N": 1500, "h": 0.5, "npts": 17,
            "mode": r.choice(["delay", "delay", "delayvolume"]), "bseed": seeds.bioscrape_seed(case_seed, "run"),
            "grid": [0.5 * i for i in range(17)]}


def run_delay_law_case(case):
    import math
    import warnings
    import bioscrape.random as R_
    from bioscrape.types import Model
    from bioscrape.simulator import py_simulate_model
    from scipy.stats import gamma as _gamma, norm as _norm
    N, h = case["N"], case["h"]
    grid = np.array(case["grid"], dtype=float)
    M = Model(species=["A", "B"], reactions=[(["A"], [], "massaction", {"k": 200.0}, case["family"], [], ["B"], dict(case["pd"]))],
              parameters=list(case["params"].items()), initial_condition_dict={"A": N, "B": 0})
    R_.py_seed_random(case["bseed"])
    kw = {"delay": True}
    if case["mode"] == "delayvolume":
        kw["volume"] = 1.3
    with warnings.catch_warnings():
        warnings.simplefilter("ignore")
        res = py_simulate_model(grid, Model=M, stochastic=True, return_dataframe=False, **kw)
    rows = np.array(res.py_get_result(), dtype=float)
    order = M.get_species_list()
    B = rows[:, order.index("B")]
    val = {k: (case["params"][v] if isinstance(v, str) else v) for k, v in case["pd"].items()}

    def F(t):
        if case["family"] == "fixed":
            return 1.0 if t >= val["delay"] else 0.0
        if case["family"] == "gaussian":
            return float(_norm.cdf((t - val["mean"]) / val["std"])) if t >= 0 else 0.0
        return float(_gamma.cdf(max(t, 0.0), a=val["k"], scale=val["theta"]))

    viols = []
    tol = 6.0 * math.sqrt(0.25 / N)
    sig = {"mode": case["mode"], "delay_family": case["family"]}
    for k in range(1, len(grid)):
        # delivered at the slot nearest to t_fire + delay; t_fire in [0, ~0.05]; the row at a slot's own time is open
        lo, hi = F(grid[k] - h - 0.06) - tol, F(grid[k] + h) + tol
        frac = B[k] / N
        if not (lo <= frac <= hi):
            viols.append({"class": "delay_law_not_followed", "signature": sig,
                          "detail": {"time": float(grid[k]), "delivered_fraction": float(frac), "allowed": [lo, hi],
                                     "delay": case["pd"], "params": case["params"]}})
            break
    stats = {"delay_law_cases": 1, "delay_law_" + case["family"]: 1, "firings": N}
    if case["family"] == "gamma" and val["k"] == 1.0:
        stats["delay_law_gamma_shape_one"] = 1
    dg = hashlib.sha256(np.ascontiguousarray(B).tobytes()).hexdigest()
    return {"violations": viols, "stats": stats, "sig": repr(("delaylaw", case["family"], sorted(val.items()), case["mode"])),
            "nontrivial": True, "digest": dg, "sim_time": float(grid[-1])}


def gen_case(case_seed, cfg):
    if seeds.rng(case_seed, "kind").random() < 0.01:
        return gen_delay_law_case(case_seed)
    case = c06.gen_case(case_seed, cfg, modes=MODES, plain_delay_p=1.0, far_p=0.08, nonuniform_p=0.0)
    r = seeds.rng(case_seed, "c10")
    if case["mode"] == "delay" and len(case["grid"]) >= 5 and r.random() < 0.3:
        # continued run: the second segment starts from the first one's final state and returned queue
        case["entry"] = "direct"
        case["split"] = r.randint(1, len(case["grid"]) - 3)
    return case


def accounting(case, raw, stats):
    """Protocol-free: last row = x0 + sum fired*S_imm + sum (fired - queued)*S_del, queued drained from the result."""
    model = case["model"]
    if model.get("rules"):
        return []
    sp = model["species"]
    R = len(model["reactions"])
    fired = [0] * R
    for rec in raw["recs"]:
        if rec[0] == "D":
            if 0 <= rec[3] < R:
                fired[rec[3]] += 1
    queued = [0.0] * R
    for (_, a) in raw["queue"]:
        for j in range(R):
            queued[j] += a[j]
    order = raw["species_order"]
    perm = [order.index(s) for s in sp]
    rows = raw["rows"][:, perm]
    if raw.get("divided"):
        return []     # the run stopped at division: the last row is not the final state of the queue
    x = np.array([float(model["init"].get(s, 0)) for s in sp])
    viols = []
    sig = {"mode": case["mode"], "safe": bool(case.get("safe"))}
    for j, rxn in enumerate(model["reactions"]):
        imm, dly = rm.stoich_columns(rxn)
        if queued[j] < 0 or queued[j] != int(queued[j]) or queued[j] > fired[j]:
            viols.append({"class": "queue_count_impossible", "signature": sig,
                          "detail": {"reaction": j, "fired": fired[j], "queued": queued[j]}})
            return viols
        if queued[j] and not any(dly.values()):
            pass
        for i, s in enumerate(sp):
            x[i] += fired[j] * imm.get(s, 0) + (fired[j] - queued[j]) * dly.get(s, 0)
    stats["accounting_runs"] = stats.get("accounting_runs", 0) + 1
    stats["still_queued"] = stats.get("still_queued", 0) + int(sum(queued))
    if not np.array_equal(rows[-1], x):
        # (no allowance for deliveries "applied after the last row": whatever is due at the final grid time is either in
        # the last row or still in the returned queue - a result from which it has vanished cannot be continued)
        viols.append({"class": "firings_not_accounted_for", "signature": sig,
                      "detail": {"last_row": rows[-1].tolist(), "expected_from_firings": x.tolist(), "fired": fired,
                                 "queued": queued}})
    return viols


def run_case(case):
    if case.get("_delaylaw"):
        return run_delay_law_case(case)
    if case.get("_dist"):
        out = distoracle.run_dist_case(case, case["N"])
        return {"violations": out["violations"], "stats": out["stats"], "sig": None, "nontrivial": False,
                "digest": out["digest"]}
    raw = eng.execute(case)
    ls = eng.lockstep(case, raw)
    stats = dict(ls["stats"])
    viols = list(ls["violations"])
    ref = ls.get("ref")
    stats["mode_" + case["mode"]] = 1
    if case.get("split"):
        stats["fired_continued_run"] = 1
    if not raw.get("error"):
        if not case.get("split"):
            viols += pathinv.check_rows(case, raw, stats)
        if case["mode"] in ("delay", "delayvolume") and not raw.get("dropped"):
            viols += accounting(case, raw, stats)
    c06.fault_counters(case, raw, ref, stats)
    nfire = sum(ref.n_fired) if ref is not None else 0
    ndelayed = 0
    if ref is not None:
        for j, rx in enumerate(case["model"]["reactions"]):
            if rx.get("delay"):
                ndelayed += ref.n_fired[j]
                stats["dtype_" + rx["delay"]["type"]] = stats.get("dtype_" + rx["delay"]["type"], 0) + ref.n_fired[j]
                if rx["delay"].get("reactants"):
                    stats["delayed_reactant_firings"] = stats.get("delayed_reactant_firings", 0) + ref.n_fired[j]
        if hasattr(ref, "n_delivered"):
            stats["deliveries"] = sum(ref.n_delivered)
            stats["immediate_deliveries"] = sum(ref.n_immediate_delivery)
            q = ref.queue
            if any(e[3] == q.entries[0][3] for e in q.entries[1:]) if q.entries else False:
                stats["fired_same_slot_many"] = 1
    stats["firings"] = nfire
    stats["delayed_firings"] = ndelayed
    return {"violations": viols, "stats": stats, "sig": eng.event_signature(ref, case),
            "nontrivial": ndelayed >= 1, "digest": eng.digest(raw), "sim_time": case["grid"][-1]}


def crash_signature(case):
    return {"mode": case.get("mode", case.get("kind")), "safe": bool(case.get("safe"))}


def shrink(case):
    if case.get("_dist") or case.get("_delaylaw"):
        return
    yield from c06.shrink(case)


def sample(case, res):
    if case.get("_delaylaw"):
        return {k: case[k] for k in ("family", "pd", "params", "mode", "N")}
    d = c06.sample(case, res)
    d["delays"] = [rx.get("delay") for rx in case["model"]["reactions"]][:3]
    return d


def extra_phases(ctx):
    cfg = ctx["cfg"]
    return distoracle.run_phase(ctx, PROPERTY, "delay0", cfg["dist_models"], cfg["dist_N"])


def reach_warnings(stats):
    out = []
    for k in ("fired_burst", "fired_stall", "fired_neg_or_zero_delay", "fired_tiny_delay", "fired_late_delay",
              "mode_delay", "mode_delayvolume", "mode_ssa", "mode_volume", "dtype_fixed", "dtype_gaussian", "dtype_gamma",
              "delayed_reactant_firings", "still_queued", "deliveries", "dist_models", "fired_continued_run"):
        if stats.get(k, 0) == 0:
            out.append(f"kind {k} never fired in this batch")
    return out


def finish_coverage(cov, stats, cfg):
    c06.finish_coverage(cov, stats, cfg)
