"""Rebuild bioscrape from /repo's working tree (hooks compiled in) into a content-addressed cache.

The cache lives outside /repo and /verif (default /var/tmp/bioscrape-verif, override VERIF_BUILD_ROOT).
The source tree to build is /repo unless VERIF_REPO points somewhere else (used by the mutant driver).
"""
import fcntl
import hashlib
import os
import shutil
import subprocess
import sys
import time

REPO = os.environ.get("VERIF_REPO", "/repo")
ROOT = os.environ.get("VERIF_BUILD_ROOT", "/var/tmp/bioscrape-verif")
PY = "/venv/bin/python"
KEEP = int(os.environ.get("VERIF_BUILD_KEEP", "12"))
MIN_AGE_S = float(os.environ.get("VERIF_BUILD_MIN_AGE_S", str(8 * 3600)))   # never prune a build that may still be in use


def _source_files(repo):
    out = []
    for sub in ("bioscrape", "lineage"):
        d = os.path.join(repo, sub)
        for name in sorted(os.listdir(d)):
            if name.endswith((".pyx", ".pxd", ".py")):
                out.append(os.path.join(sub, name))
    for name in ("setup.py", "setup.cfg", "pyproject.toml", "README.md", "MANIFEST.in"):
        if os.path.exists(os.path.join(repo, name)):
            out.append(name)
    return out


def source_hash(repo=REPO):
    h = hashlib.sha256()
    for rel in _source_files(repo):
        h.update(rel.encode())
        h.update(b"\0")
        with open(os.path.join(repo, rel), "rb") as f:
            h.update(f.read())
        h.update(b"\0")
    return h.hexdigest()[:20]


def _prune(keep_dir):
    try:
        entries = []
        for name in os.listdir(ROOT):
            p = os.path.join(ROOT, name)
            if os.path.isdir(p) and p != keep_dir:
                entries.append((os.path.getmtime(p), p))
        entries.sort(reverse=True)
        now = time.time()
        for mt, p in entries[max(0, KEEP - 1):]:
            if now - mt > MIN_AGE_S:
                shutil.rmtree(p, ignore_errors=True)
    except OSError:
        pass


def ensure_build(repo=REPO, verbose=True):
    """Returns the directory to put first on sys.path. Builds if necessary (under a file lock)."""
    os.makedirs(ROOT, exist_ok=True)
    h = source_hash(repo)
    dest = os.path.join(ROOT, h)
    ok = os.path.join(dest, ".ok")
    if os.path.exists(ok):
        try:
            os.utime(dest)
        except OSError:
            pass
        return dest
    lock_path = os.path.join(ROOT, ".lock")
    with open(lock_path, "w") as lock:
        fcntl.flock(lock, fcntl.LOCK_EX)
        if os.path.exists(ok):
            return dest
        if os.path.exists(dest):
            shutil.rmtree(dest)
        os.makedirs(dest)
        for rel in _source_files(repo):
            dst = os.path.join(dest, rel)
            os.makedirs(os.path.dirname(dst), exist_ok=True)
            shutil.copy2(os.path.join(repo, rel), dst)
        t0 = time.time()
        if verbose:
            print(f"[build] building bioscrape {h} from {repo} ...", file=sys.stderr, flush=True)
        env = dict(os.environ)
        env.pop("BIOSCRAPE_VERIF", None)
        env["PIP_NO_INDEX"] = "1"
        log = os.path.join(dest, "build.log")
        with open(log, "w") as lf:
            r = subprocess.run([PY, "setup.py", "build_ext", "--inplace", "-j", "8"], cwd=dest,
                               stdout=lf, stderr=subprocess.STDOUT, env=env)
        if r.returncode != 0:
            tail = open(log).read()[-4000:]
            raise RuntimeError(f"bioscrape build failed (see {log}):\n{tail}")
        # remove intermediates to save disk
        shutil.rmtree(os.path.join(dest, "build"), ignore_errors=True)
        for sub in ("bioscrape", "lineage"):
            d = os.path.join(dest, sub)
            for name in os.listdir(d):
                if name.endswith((".cpp", ".c")):
                    os.remove(os.path.join(d, name))
        with open(ok, "w") as f:
            f.write(f"{time.time() - t0:.1f}\n")
        if verbose:
            print(f"[build] done in {time.time() - t0:.0f}s -> {dest}", file=sys.stderr, flush=True)
        _prune(dest)
    return dest


def activate(repo=REPO):
    """Build if needed, enable the hook guard, and put the build first on sys.path. Call before importing bioscrape."""
    dest = ensure_build(repo)
    os.environ["BIOSCRAPE_VERIF"] = "1"
    if "bioscrape" in sys.modules:
        mod = sys.modules["bioscrape"]
        if not getattr(mod, "__file__", "").startswith(dest):
            raise RuntimeError("bioscrape imported before simkit.build.activate()")
    if dest in sys.path:
        sys.path.remove(dest)
    sys.path.insert(0, dest)
    # import everything now: forked workers inherit the loaded modules and no longer depend on the files of the build
    import importlib
    for name in ("bioscrape", "bioscrape.random", "bioscrape.types", "bioscrape.simulator", "bioscrape.inference",
                 "bioscrape.lineage", "bioscrape.sbmlutil", "bioscrape.analysis", "bioscrape.pid_interfaces",
                 "bioscrape.inference_setup"):
        importlib.import_module(name)
    return dest


if __name__ == "__main__":
    print(ensure_build())
