"""C19 - division conserves molecules and volume; lineage records are consistent (DESIGN.md 4.11)."""
import hashlib

import numpy as np

from simkit import lineage_engine as le, mt64, seeds, trace as tr

PROPERTY = "C19"
LEVEL = "exploration"
RULE = ("two strata. (a) splitters directly: py_partition of PerfectBinomialVolumeSplitter / GeneralVolumeSplitter / "
        "LineageVolumeSplitter (per-species binomial / perfect / duplicate modes, partition noise) on generated mother states under "
        "seeded and skew_split scripted streams, traced binomial arguments compared with the daughter's volume fraction. (b) whole "
        "lineages: py_SimulateCellLineage on seeded lineage models (reactions, growth rule/event, division rule/event, optional death "
        "rule/event, every splitter) incl. networks that die out, plain and safe interface; protocol-free oracle over the returned "
        "Lineage (tree links, division times, legal partitions, positive volume, grid-slice time axes, every row an integer lattice "
        "step of the reaction stoichiometries, volume following the growth rule); non-trivial = lineage with >= 1 division or partition "
        "of a non-empty state; distinct = distinct (model kinds, tree shape, division times) hashes")
ASSUMPTIONS = [
    "custom partition functions are not exercised",
    "'was actually simulated' is decided protocol-free: consecutive rows of a cell differ by a non-negative integer combination of the "
    "net reaction stoichiometries, volumes are positive and follow the (noise-free) growth rule between rows",
    "the binomial law itself is checked on the primitive (C05 primitives); here the traced (N, p) arguments are compared with the "
    "mother count and the daughter's volume fraction",
]
COMPONENTS = {"real": ["bioscrape.lineage LineageModel / LineageCSimInterface / SafeLineageCSimInterface / LineageSSASimulator / "
                       "LineageVolumeSplitter", "bioscrape.simulator PerfectBinomialVolumeSplitter / GeneralVolumeSplitter",
                       "bioscrape.types Schnitz / Lineage", "bioscrape.random (scripted in skew_split runs)"], "stub": []}
TIERS = {
    "quick": {"cases": 3000, "block": 100, "case_timeout": 60.0},
    "thorough": {"cases": 100000, "block": 250, "case_timeout": 90.0},
}


def gen_case(case_seed, cfg):
    r = seeds.rng(case_seed, "c19")
    stratum = r.choice(["partition", "lineage", "lineage", "lineage"])
    absorb = r.random() < 0.3
    lm = le.gen_lineage_model(r, absorb=absorb)
    if stratum == "partition":
        lm["division2"] = None
        lm["splitter2"] = None
    if stratum == "lineage" and lm["splitter"]["kind"] != "lineage":
        # the lineage simulator casts daughters to LineageVolumeCellState: only LineageVolumeSplitter produces those (the
        # other two splitters are exercised in the partition stratum)
        sp = lm["model"]["species"]
        vmode = r.choice(["binomial", "binomial", "perfect", "duplicate"])
        if vmode == "duplicate" and lm["division"]["kind"] in ("rule_volume", "rule_general", "rule_deltav"):
            vmode = "binomial"
        lm["splitter"] = {"kind": "lineage", "options": dict({s: r.choice(le.MODES) for s in sp if r.random() < 0.7}, volume=vmode),
                          "noise": r.choice([0.0, 0.2, 0.5, 0.9])}
    case = {"stratum": stratum, "lm": lm, "bseed": seeds.bioscrape_seed(case_seed, "run"), "safe": r.random() < 0.3,
            "absorb": absorb, "script": []}
    if stratum == "partition":
        case["mother"] = {s: r.choice([0, 1, 2, 3, 7, 10, 25, 60]) for s in lm["model"]["species"]}
        case["mother_volume"] = r.choice([0.5, 1.0, 1.7, 3.0])
        case["reps"] = r.choice([1, 3, 8])
        mode = r.choice(["seeded", "seeded", "all_low", "all_high", "noise_max", "noise_min"])
        case["skew"] = mode
    return case


def run_partition(case):
    import bioscrape.random as R_
    from bioscrape.lineage import LineageVolumeCellState
    from bioscrape.simulator import VolumeCellState
    lm = case["lm"]
    M, _ = le.build_lineage_model(lm, with_division=False)
    vs = le.build_splitter(lm, M)
    order = M.get_species_list()
    viols = []
    stats = {"partitions": 0}
    sig = {"splitter": lm["splitter"]["kind"], "stratum": "partition"}

    def bad(cls, **d):
        if len(viols) < 3:
            viols.append({"class": cls, "signature": dict(sig), "detail": d})

    R_.py_seed_random(case["bseed"])
    h = hashlib.sha256()
    total = int(sum(case["mother"].values()))
    for rep in range(case["reps"]):
        x = np.array([float(case["mother"][s]) for s in order])
        V = float(case["mother_volume"])
        if lm["splitter"]["kind"] == "lineage":
            parent = LineageVolumeCellState(v0=V, t0=0.0, state=x.copy(), volume=V, time=2.5)
        else:
            parent = VolumeCellState()
            parent.py_set_state(x.copy())
            parent.py_set_volume(V)
            parent.py_set_time(2.5)
        skew = case.get("skew", "seeded")
        n = total + 8
        if skew == "all_low":
            R_.py_verif_script(np.full(n, 1e-9))
        elif skew == "all_high":
            R_.py_verif_script(np.full(n, 1 - 1e-9))
        elif skew == "noise_max":
            R_.py_verif_script(np.array([1 - 1e-12]))
        elif skew == "noise_min":
            R_.py_verif_script(np.array([1e-12]))
        R_.py_verif_trace_start(20000 + 8 * total, 1)
        try:
            d, e = vs.py_partition(parent)
        except Exception as ex:
            R_.py_verif_trace_stop()
            R_.py_verif_script(np.zeros(0))
            bad("partition_raised", error=f"{type(ex).__name__}: {str(ex)[:200]}")
            break
        flat, dropped = R_.py_verif_trace_stop()
        R_.py_verif_script(np.zeros(0))
        recs = tr.decode(flat)
        brecs = [r_ for r_ in recs if r_[0] == "B"] if not dropped else None
        dr = np.array(d.py_get_state(), dtype=float)
        er = np.array(e.py_get_state(), dtype=float)
        h.update(dr.tobytes() + er.tobytes())
        stats["partitions"] += 1
        if skew != "seeded":
            stats["fired_skew_split"] = stats.get("fired_skew_split", 0) + 1
        ok = le.check_partition(lm, order, x, V, dr, er, float(d.py_get_volume()), float(e.py_get_volume()), bad, brecs)
        if not ok:
            break
        if d.py_get_time() != 2.5 or e.py_get_time() != 2.5:
            bad("partition_time", times=[d.py_get_time(), e.py_get_time()])
            break
        # the mother is left unchanged
        if not np.array_equal(np.array(parent.py_get_state()), x) or parent.py_get_volume() != V:
            bad("partition_changed_the_mother", before=x.tolist(), after=np.array(parent.py_get_state()).tolist())
            break
        for s in order:
            stats["mode_" + le.species_mode(lm, s)] = stats.get("mode_" + le.species_mode(lm, s), 0) + 1
    stats["splitter_" + lm["splitter"]["kind"]] = 1
    if lm["splitter"].get("earlier_options"):
        stats["fired_splitter_reconfigured"] = 1
    return {"violations": viols, "stats": stats, "sig": repr(("partition", lm["splitter"], case["mother"], case.get("skew"))),
            "nontrivial": total > 0, "digest": h.hexdigest(), "sim_time": 0.0}


def run_case(case):
    if case["stratum"] == "partition":
        return run_partition(case)
    from simkit import lineage_ref
    out = le.run_lineage(case)
    stats = {"lineages": 1}
    viols = le.lineage_oracle(case, out, stats)
    if not viols:
        viols += lineage_ref.lockstep_lineage(case, out, stats)
    lm = case["lm"]
    stats["div_" + lm["division"]["kind"]] = 1
    stats["growth_" + lm["growth"]["kind"]] = 1
    stats["splitter_" + lm["splitter"]["kind"]] = 1
    if lm.get("death"):
        stats["death_" + lm["death"]["kind"]] = 1
    if case.get("safe"):
        stats["safe_runs"] = 1
    if case.get("absorb"):
        stats["fired_absorb_model"] = 1
    cells = out.get("cells", [])
    ndiv = sum(1 for c in cells if c["daughters"][0] is not None)
    shape = tuple((c["parent"], float(c["time"][0]), len(c["time"])) for c in cells)
    # an E record with Lambda known: count firings
    stats["firings"] = sum(1 for r_ in out.get("recs", []) if r_[0] == "D")
    return {"violations": viols, "stats": stats,
            "sig": repr((lm["division"]["kind"], lm["growth"]["kind"], lm["splitter"]["kind"], shape)),
            "nontrivial": ndiv >= 1, "digest": le.lineage_digest(out), "sim_time": lm["dt"] * (lm["npts"] - 1) * max(1, len(cells))}


def crash_signature(case):
    lm = case["lm"]
    return {"stratum": case["stratum"], "division": lm["division"]["kind"], "growth": lm["growth"]["kind"],
            "safe": bool(case.get("safe"))}


def shrink(case):
    lm = case["lm"]
    m = lm["model"]
    if case.get("safe"):
        yield dict(case, safe=False)
    for i in range(len(m["reactions"])):
        if len(m["reactions"]) > 1:
            yield dict(case, lm=dict(lm, model=dict(m, reactions=m["reactions"][:i] + m["reactions"][i + 1:])))
    if lm.get("death"):
        yield dict(case, lm=dict(lm, death=None))
    if lm.get("division2"):
        yield dict(case, lm=dict(lm, division2=None, splitter2=None))
    if lm["npts"] > 5:
        yield dict(case, lm=dict(lm, npts=max(5, lm["npts"] // 2)))
    for s, v in m["init"].items():
        if v > 1:
            yield dict(case, lm=dict(lm, model=dict(m, init=dict(m["init"], **{s: v // 2}))))
    if "noise" in lm["growth"]:
        g = dict(lm["growth"])
        g.pop("noise")
        yield dict(case, lm=dict(lm, growth=g))
    if "noise" in lm["division"]:
        d = dict(lm["division"])
        d.pop("noise")
        yield dict(case, lm=dict(lm, division=d))
    if lm["splitter"]["kind"] != "perfect_binomial" and case["stratum"] != "partition":
        yield dict(case, lm=dict(lm, splitter={"kind": "perfect_binomial"}))
    if case["stratum"] == "partition":
        if case["reps"] > 1:
            yield dict(case, reps=1)
        for s, v in case["mother"].items():
            if v > 1:
                yield dict(case, mother=dict(case["mother"], **{s: v // 2}))


def sample(case, res):
    lm = case["lm"]
    d = {"stratum": case["stratum"], "species": lm["model"]["species"], "init": lm["model"]["init"],
         "reactions": lm["model"]["reactions"][:2], "growth": lm["growth"], "division": lm["division"], "death": lm["death"],
         "splitter": lm["splitter"], "dt": lm["dt"], "npts": lm["npts"], "safe": case["safe"]}
    if case["stratum"] == "partition":
        d["mother"] = case["mother"]
        d["skew"] = case.get("skew")
    return d


def reach_warnings(stats):
    out = []
    for k in ("partitions", "lineages", "divisions", "fired_skew_split", "fired_absorb_model", "mode_binomial", "mode_perfect",
              "mode_duplicate", "splitter_lineage", "splitter_general", "splitter_perfect_binomial", "div_rule_time",
              "div_rule_volume", "div_rule_deltav", "div_rule_general", "div_event", "growth_rule_linear",
              "growth_rule_multiplicative", "growth_rule_ode", "growth_event_linear", "growth_event_multiplicative",
              "growth_event_general", "death_event", "death_rule_species", "safe_runs", "division_trigger_event",
              "division_trigger_rule", "fired_splitter_reconfigured"):
        if stats.get(k, 0) == 0:
            out.append(f"kind {k} never fired in this batch")
    return out


def finish_coverage(cov, stats, cfg):
    cov["events"] = {"divisions": stats.get("divisions", 0), "cells": stats.get("cells", 0), "firings": stats.get("firings", 0),
                     "partitions": stats.get("partitions", 0)}
    cov["fault_kinds"] = {k[6:]: {"fired": v} for k, v in stats.items() if k.startswith("fired_")}
