#!/bin/bash
# Offline setup: nothing to install (all checks use /venv/bin/python with the repository's own dependencies).
# Pre-warm the build cache from /repo's working tree so the first check does not pay for the build.
set -e
cd "$(dirname "$0")"
mkdir -p evidence replays
/venv/bin/python simkit/build.py
