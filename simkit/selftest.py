"""Determinism self-test (DESIGN.md 8): every engine's case batch is executed for many VERIF_SEED values with 16 workers, with 1
worker, and in a fresh interpreter under another PYTHONHASHSEED; the digests of the full event logs must agree.
A mismatch is a HARNESS-ERROR (exit 2), never a VIOLATION."""
import json
import os
import subprocess
import sys
import time

VERIF = os.path.dirname(os.path.dirname(os.path.abspath(__file__)))
CHECKS = ["C05", "C06", "C07", "C08", "C09", "C10", "C11", "C12", "C15", "C17", "C19", "C20"]


def one(prop, seed, cases, jobs, hashseed):
    env = dict(os.environ)
    env["PYTHONHASHSEED"] = str(hashseed)
    out = subprocess.run([os.path.join(VERIF, "check"), prop, "--digest", "--seed", str(seed), "--cases", str(cases),
                          "--jobs", str(jobs)], cwd=VERIF, env=env, capture_output=True, text=True, timeout=3600)
    for line in out.stdout.splitlines():
        if line.startswith("DIGEST"):
            return line.split()[-1], line
    return None, out.stdout[-500:] + out.stderr[-500:]


def main():
    n_seeds = int(os.environ.get("VERIF_SELFTEST_SEEDS", "4"))
    cases = int(os.environ.get("VERIF_SELFTEST_CASES", "320"))
    t0 = time.time()
    bad = []
    report = {}
    for prop in CHECKS:
        for k in range(n_seeds):
            seed = 1000 + 7919 * k
            a, la = one(prop, seed, cases, 16, 0)
            b, lb = one(prop, seed, cases, 1 if k == 0 else 5, 0)
            c, lc = one(prop, seed, cases, 16, 12345 + k)
            ok = a is not None and a == b == c
            report.setdefault(prop, []).append({"seed": seed, "ok": ok})
            print(f"{prop} seed={seed}: {'identical' if ok else 'MISMATCH'} ({str(a)[:12]} {str(b)[:12]} {str(c)[:12]})", flush=True)
            if not ok:
                bad.append((prop, seed, la, lb, lc))
    os.makedirs(os.path.join(VERIF, "evidence"), exist_ok=True)
    with open(os.path.join(VERIF, "evidence", "selftest.json"), "w") as f:
        json.dump({"seeds_per_check": n_seeds, "cases_per_run": cases, "runs_per_seed": 3,
                   "variants": ["16 workers hashseed 0", "1 or 5 workers hashseed 0", "16 workers other hashseed, fresh interpreter"],
                   "report": report, "wall_s": round(time.time() - t0, 1)}, f, indent=1)
    if bad:
        for b in bad:
            print("HARNESS-ERROR: non-deterministic batch", b[0], b[1])
            for l in b[2:]:
                print("   ", l)
        return 2
    print(f"selftest: {len(CHECKS)} engines x {n_seeds} seeds x 3 executions identical ({time.time() - t0:.0f}s)")
    return 0
