"""Independent reference MT19937-64 (Matsumoto & Nishimura) and bioscrape's uniform mapping."""
import math

NN, MM = 312, 156
MATRIX_A = 0xB5026F5AA96619E9
UM = 0xFFFFFFFF80000000
LM = 0x7FFFFFFF
M64 = (1 << 64) - 1
INV = 1.0 / 9007199254740991.0


class MT64:
    def __init__(self, seed):
        mt = [0] * NN
        mt[0] = seed & M64
        for i in range(1, NN):
            mt[i] = (6364136223846793005 * (mt[i - 1] ^ (mt[i - 1] >> 62)) + i) & M64
        self.mt = mt
        self.mti = NN

    def genrand64(self):
        mt = self.mt
        if self.mti >= NN:
            for i in range(NN - MM):
                x = (mt[i] & UM) | (mt[i + 1] & LM)
                mt[i] = mt[i + MM] ^ (x >> 1) ^ (MATRIX_A if x & 1 else 0)
            for i in range(NN - MM, NN - 1):
                x = (mt[i] & UM) | (mt[i + 1] & LM)
                mt[i] = mt[i + (MM - NN)] ^ (x >> 1) ^ (MATRIX_A if x & 1 else 0)
            x = (mt[NN - 1] & UM) | (mt[0] & LM)
            mt[NN - 1] = mt[MM - 1] ^ (x >> 1) ^ (MATRIX_A if x & 1 else 0)
            self.mti = 0
        x = mt[self.mti]
        self.mti += 1
        x ^= (x >> 29) & 0x5555555555555555
        x ^= (x << 17) & 0x71D67FFFEDA60000
        x ^= (x << 37) & 0xFFF7EEE000000000
        x &= M64
        x ^= (x >> 43)
        return x

    def uniform(self):
        return (self.genrand64() >> 11) * INV


def script_value(k):
    """The double bioscrape's uniform_rv returns for the 53-bit integer k."""
    return k * INV


def k_of(u):
    """53-bit integer whose uniform is nearest to u, clipped to [1, 2^53-2]."""
    k = int(round(u * 9007199254740991.0))
    return min(max(k, 1), 9007199254740990)
