"""C17 - copies and pickles of models and results behave like the original (DESIGN.md 4.10)."""
import numpy as np
from simkit import history, seeds
from checks import c08

PROPERTY = "C17"
LEVEL = "exploration"
RULE = ("case = seeded history over the C08 alphabet plus restart operations {pickle (protocols 2-5), deepcopy} at arbitrary "
        "points (initialised or not, before/after simulations and edits, copies of copies): the restored object replaces the live "
        "one; at every restart original and restored are compared behaviourally (dictionaries, stoichiometry, rate laws at sampled "
        "states in deterministic / volume / stochastic / stochastic-volume / safe form, delay draws under a common seed, seeded "
        "simulations in three modes) and an independence check edits one of the two; lineage models, cell states, schnitzes and "
        "lineages are covered by the lineage part; non-trivial = history with >= 1 restart; distinct = distinct op-kind sequences")
ASSUMPTIONS = c08.ASSUMPTIONS + [
    "stochastic rate forms are observed through a forced one-firing run of the real simulator (traced weight vector)",
]
COMPONENTS = {"real": ["bioscrape.types.Model __getstate__/__setstate__, auto-pickled Term / Propensity / Delay / Rule classes",
                       "copy.deepcopy, pickle protocols 2-5", "all simulators through py_simulate_model",
                       "lineage.LineageModel and result classes (lineage part)"], "stub": []}
TIERS = {
    "quick": {"cases": 3000, "block": 60, "case_timeout": 60.0},
    "thorough": {"cases": 80000, "block": 150, "case_timeout": 90.0},
}
ALPHABET = (["add_species", "add_reaction", "add_reaction", "create_parameter", "set_parameter", "set_params", "set_species",
             "create_rule", "initialize", "build_interface", "simulate", "simulate", "seed", "probe",
             "restart_pickle", "restart_pickle", "restart_pickle", "restart_copy", "restart_copy", "restart_copy"])


def gen_lineage_case(case_seed, r):
    from simkit import lineage_engine as le
    lm = le.gen_lineage_model(r, absorb=r.random() < 0.2)
    # keep lineages small: the restart comparison simulates the whole lineage several times
    lm["npts"] = min(lm["npts"], 17)
    if lm["splitter"]["kind"] != "lineage":
        sp = lm["model"]["species"]
        vmode = r.choice(["binomial", "binomial", "perfect"])
        lm["splitter"] = {"kind": "lineage", "options": dict({s: r.choice(le.MODES) for s in sp}, volume=vmode),
                          "noise": r.choice([0.0, 0.2, 0.5])}
    # named parameters so that value edits have something to act on
    if not lm["model"]["params"]:
        rx = lm["model"]["reactions"][0]
        if rx["type"] == "massaction" and not isinstance(rx["pd"]["k"], str):
            lm["model"]["params"]["kx"] = rx["pd"]["k"]
            rx["pd"]["k"] = "kx"
    ops = []
    for _ in range(r.choice([2, 3, 5, 8])):
        u = r.random()
        if u < 0.2:
            ops.append(["simulate", r.getrandbits(48) | 1, r.random() < 0.3])
        elif u < 0.3:
            ops.append(["initialize"])
        elif u < 0.4:
            ops.append(["set_parameter", r.randrange(8), r.choice([0.1, 0.5, 1.5, 3.0])])
        elif u < 0.5:
            ops.append(["set_species", r.randrange(8), r.choice([0, 1, 4, 9])])
        elif u < 0.8:
            ops.append(["restart_pickle", r.choice([2, 3, 4, 5]), r.choice(["set_parameter", "none"]), r.choice(["original", "restored"])])
        else:
            ops.append(["restart_deepcopy", 0, r.choice(["set_parameter", "none"]), r.choice(["original", "restored"])])
    if not any(o[0].startswith("restart") for o in ops):
        ops.append(["restart_pickle", 4, "set_parameter", "restored"])
    ops.append(["simulate", r.getrandbits(48) | 1, False])
    return {"stratum": "lineage", "lm": lm, "ops": ops, "pseed": seeds.derive(case_seed, "p"), "base": lm["model"]}


def gen_case(case_seed, cfg):
    r = seeds.rng(case_seed, "c17")
    kind = "lineage" if r.random() < cfg.get("lineage_share", 0.25) else "plain"
    if kind == "lineage":
        return gen_lineage_case(case_seed, r)
    n_ops = r.choice([2, 4, 6, 10, 16, 24])
    pr = seeds.rng(case_seed, "param_rule").random() < 0.15
    base, ops = history.gen_history(r, n_ops, ALPHABET, allow_ode=True, param_rule_stratum=pr,
                                    param_rule_freqs=("repeated", "dt", 1.0, 0.25, 2.5))
    if not any(o[0].startswith("restart") for o in ops):
        ops.insert(len(ops) - 1, ["restart_pickle", 4, "set_parameter", "restored"])
    return {"base": base, "ops": ops, "stratum": kind, "pseed": seeds.derive(case_seed, "p")}


def run_case(case):
    if case.get("stratum") == "lineage":
        from simkit import lineage_engine as le
        stats = {"stratum_lineage": 1}
        viols, dg = le.run_model_restart_case(case, stats)
        lm = case["lm"]
        stats["lin_div_" + lm["division"]["kind"]] = 1
        stats["lin_growth_" + lm["growth"]["kind"]] = 1
        if lm.get("death"):
            stats["lin_death_" + lm["death"]["kind"]] = 1
        return {"violations": viols, "stats": stats,
                "sig": repr(("lineage", lm["division"]["kind"], lm["growth"]["kind"], [o[0] for o in case["ops"]],
                             lm["model"]["reactions"]))[:600],
                "nontrivial": True, "digest": dg, "sim_time": 0.0}
    out = c08.run_case(case)
    if not out["violations"]:
        out["violations"] += plain_result_pickle_probe(case, out["stats"])
    kinds = [o[0] for o in case["ops"]]
    out["nontrivial"] = any(k.startswith("restart") for k in kinds)
    rs = [x for x in case["base"]["reactions"]] + [o[1] for o in case["ops"] if o[0] == "add_reaction"]
    for rx in rs:
        out["stats"]["ptype_" + rx["type"]] = out["stats"].get("ptype_" + rx["type"], 0) + 1
        if rx.get("delay"):
            out["stats"]["dtype_" + rx["delay"]["type"]] = out["stats"].get("dtype_" + rx["delay"]["type"], 0) + 1
    return out


def _queue_content(q, n_rxn):
    c = q.py_copy()
    out = []
    amt = np.zeros(n_rxn)
    for _ in range(c.py_get_num_cols() if hasattr(c, "py_get_num_cols") else 64):
        t = c.py_get_next_queue_time()
        c.py_get_next_reactions(amt)
        out.append((float(t), amt.tolist()))
        c.py_advance_time()
    return out


def plain_result_pickle_probe(case, stats):
    """Results of plain simulations and the cell states they hand out survive pickling / deep copy with their data intact."""
    import copy
    import pickle
    import warnings
    import bioscrape.random as R_
    from bioscrape.simulator import py_simulate_model
    from simkit import refmodel as rm, netgen
    m = case["base"]
    viols = []
    r = seeds.rng(case.get("pseed", 1), "result_pickle")
    has_delay = any(x.get("delay") for x in m["reactions"])
    mode = r.choice(["ssa", "volume", "volume"] + (["delay", "delayvolume", "delayvolume"] if has_delay else []))
    kw = {"ssa": {}, "volume": {"volume": 1.7}, "delay": {"delay": True}, "delayvolume": {"delay": True, "volume": 0.6}}[mode]
    lam = max(netgen.initial_lambda(m), 0.3)
    horizon = netgen.cap_horizon(m, 4.0 / lam, max_events=800)
    step = max(1, min(640, int(round(horizon / 4 * 64)))) / 64.0
    grid = np.array([i * step for i in range(5)])
    sig = {"stratum": "plain", "result_of": mode}

    def bad(cls, **d):
        viols.append({"class": cls, "signature": dict(sig), "detail": d})

    try:
        M = rm.to_bioscrape(m)
        R_.py_seed_random((case.get("pseed", 1) & 0xFFFFFFFF) | 1)
        with warnings.catch_warnings():
            warnings.simplefilter("ignore")
            res = py_simulate_model(grid, Model=M, stochastic=True, safe=True, return_dataframe=False, **kw)
    except Exception:
        return viols          # the simulation itself is other checks' business
    n_rxn = len(m["reactions"])

    def describe(o):
        d = {"rows": np.array(o.py_get_result(), dtype=float).tolist(), "time": np.array(o.py_get_timepoints(), dtype=float).tolist()}
        if hasattr(o, "py_get_volume"):
            d["volume"] = np.array(o.py_get_volume(), dtype=float).tolist()
            d["divided"] = int(o.py_cell_divided())
        if hasattr(o, "py_get_delay_queue"):
            d["queue"] = _queue_content(o.py_get_delay_queue(), n_rxn)
        return d

    def describe_cell(c):
        d = {"state": np.array(c.py_get_state(), dtype=float).tolist(), "time": float(c.py_get_time())}
        if hasattr(c, "py_get_volume"):
            d["volume"] = float(c.py_get_volume())
        if hasattr(c, "py_get_delay_queue") and c.py_get_delay_queue() is not None:
            d["queue"] = _queue_content(c.py_get_delay_queue(), n_rxn)
        return d

    want = describe(res)
    for how, f in (("pickle", lambda o: pickle.loads(pickle.dumps(o))), ("pickle2", lambda o: pickle.loads(pickle.dumps(o, protocol=2))),
                   ("deepcopy", copy.deepcopy)):
        try:
            got = describe(f(res))
        except Exception as e:
            bad("result_pickle_failed", object=type(res).__name__, how=how, error=f"{type(e).__name__}: {str(e)[:160]}")
            break
        if got != want:
            bad("pickled_result_differs", object=type(res).__name__, how=how,
                field=[k for k in want if got.get(k) != want[k]][:3])
            break
    else:
        stats["plain_result_pickles"] = stats.get("plain_result_pickles", 0) + 1
    if hasattr(res, "py_get_final_cell_state") and not viols:
        try:
            cell = res.py_get_final_cell_state()
            wantc = describe_cell(cell)
        except Exception:
            return viols
        for how, f in (("pickle", lambda o: pickle.loads(pickle.dumps(o))), ("deepcopy", copy.deepcopy),
                       ("pickle_of_pickle", lambda o: pickle.loads(pickle.dumps(pickle.loads(pickle.dumps(o)))))):
            try:
                gotc = describe_cell(f(cell))
            except Exception as e:
                bad("cell_state_pickle_failed", object=type(cell).__name__, how=how, error=f"{type(e).__name__}: {str(e)[:160]}")
                break
            if gotc != wantc:
                bad("pickled_cell_state_differs", object=type(cell).__name__, how=how,
                    field=[k for k in wantc if gotc.get(k) != wantc[k]][:3], original=wantc, restored=gotc)
                break
        else:
            stats["plain_cell_state_pickles"] = stats.get("plain_cell_state_pickles", 0) + 1
    return viols


crash_signature = c08.crash_signature


def shrink(case):
    if case.get("stratum") == "lineage":
        ops = case["ops"]
        for i in range(len(ops)):
            if len(ops) > 1:
                yield dict(case, ops=ops[:i] + ops[i + 1:])
        lm = case["lm"]
        if lm.get("death"):
            yield dict(case, lm=dict(lm, death=None))
        if lm.get("division2"):
            yield dict(case, lm=dict(lm, division2=None, splitter2=None))
        m = lm["model"]
        for i in range(len(m["reactions"])):
            if len(m["reactions"]) > 1:
                yield dict(case, lm=dict(lm, model=dict(m, reactions=m["reactions"][:i] + m["reactions"][i + 1:])))
        return
    yield from c08.shrink(case)


def sample(case, res):
    if case.get("stratum") == "lineage":
        lm = case["lm"]
        return {"stratum": "lineage", "growth": lm["growth"], "division": lm["division"], "death": lm["death"],
                "splitter": lm["splitter"], "ops": case["ops"]}
    return c08.sample(case, res)


def reach_warnings(stats):
    out = []
    for k in ("restarts", "op_restart_pickle", "op_restart_deepcopy", "independence_checks", "stochastic_forms_compared",
              "restart_seeded_comparisons", "ptype_massaction", "ptype_general", "ptype_hillpositive", "ptype_hillnegative",
              "ptype_proportionalhillpositive", "ptype_proportionalhillnegative", "dtype_fixed", "dtype_gaussian", "dtype_gamma",
              "stratum_lineage", "result_pickles", "cell_state_pickles", "lin_div_rule_time", "lin_div_event", "lin_growth_rule_linear",
              "lin_growth_event_general", "lin_death_event", "lin_death_rule_species"):
        if stats.get(k, 0) == 0:
            out.append(f"kind {k} never fired in this batch")
    return out


finish_coverage = c08.finish_coverage
