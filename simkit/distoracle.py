"""Protocol-free distribution oracle: N seeded runs of a real simulator on a finite-state network against the CME
(marginals at every grid time + two-time joints). Used by C05 (plain SSA), C10 (zero-delay clause), C11 (constant volume)."""
import hashlib

import numpy as np

from . import cme, netgen, refmodel as rm, seeds

ALPHA = 1e-9
MIN_EXPECTED = 20.0


def gen_dist_case(case_seed, kind, family=None):
    """kind: 'ssa' | 'volume' | 'delay0'. Returns a JSON-able case."""
    for attempt in range(30):
        r = seeds.rng(case_seed, "dist", attempt)
        model, meta = netgen.gen_finite_network(r, family)
        v0 = None
        if kind == "volume":
            v0 = netgen.nice(r.uniform(0.2, 5.0), 3)
        safe = r.random() < 0.35
        try:
            states, index, trans, boundary = cme.reachable(model, vol=v0, safe=safe, cap=meta["cap"], max_states=3000)
        except (cme.TooBig, ValueError):
            continue
        if len(states) < 2:
            continue
        # horizon: a few relaxation times of the slowest reaction, but not so long that everything is stationary
        lam0 = netgen.initial_lambda(model, v0, safe)
        rates = [t[2] for t in trans]
        base = 1.0 / max(min(max(rates), max(lam0, 1e-9)), 1e-6)
        horizon = base * r.choice([2.0, 5.0, 12.0])
        npts = r.choice([5, 7, 9])
        k = max(1, int(round(horizon / (npts - 1) * 64)))
        step = k / 64.0
        grid = [i * step for i in range(npts)]
        if kind == "delay0":
            # every reaction gets a delayed part with zero delay (fixed 0, or a Gaussian whose draws are all <= 0)
            for rxn in model["reactions"]:
                if rxn["products"] and r.random() < 0.8:
                    moved = [rxn["products"].pop(r.randrange(len(rxn["products"])))]
                    typ = r.choice(["fixed", "gaussian"])
                    pd = {"delay": 0.0} if typ == "fixed" else {"mean": -1000.0, "std": 1.0}
                    rxn["delay"] = {"type": typ, "reactants": [], "products": moved, "pd": pd}
        return {"kind": kind, "model": model, "family": meta["family"], "cap": meta["cap"], "v0": v0, "safe": safe,
                "grid": grid, "bseed": seeds.bioscrape_seed(case_seed, "dist-run"), "nstates": len(states)}
    raise RuntimeError("could not generate a finite network")


def simulate_many(case, N):
    """N consecutive seeded runs of the real simulator; returns int array (N, len(grid), n_species) in model species order."""
    import bioscrape.random as R_
    from bioscrape.simulator import (ModelCSimInterface, SafeModelCSimInterface, SSASimulator, DelaySSASimulator,
                                     VolumeSSASimulator, ArrayDelayQueue)
    from bioscrape.types import Volume
    model = case["model"]
    grid = np.array(case["grid"], dtype=float)
    M = rm.to_bioscrape(model)
    order = M.get_species_list()
    perm = [order.index(s) for s in model["species"]]
    iface = SafeModelCSimInterface(M) if case.get("safe") else ModelCSimInterface(M)
    dt = float(grid[1] - grid[0])
    iface.py_set_dt(dt)
    R_.py_seed_random(case["bseed"])
    out = np.empty((N, len(grid), len(perm)), dtype=np.int32)
    kind = case["kind"]
    if kind == "ssa":
        sim = SSASimulator()
        for i in range(N):
            out[i] = sim.py_simulate(iface, grid).py_get_result()[:, perm]
    elif kind == "volume":
        sim = VolumeSSASimulator()
        v = Volume()
        v.py_set_volume(case["v0"])
        for i in range(N):
            out[i] = sim.py_volume_simulate(iface, v, grid).py_get_result()[:, perm]
    elif kind == "delay0":
        sim = DelaySSASimulator()
        R = len(model["reactions"])
        for i in range(N):
            q = ArrayDelayQueue.setup_queue(R, len(grid), dt)
            out[i] = sim.py_delay_simulate(iface, q, grid).py_get_result()[:, perm]
    else:
        raise ValueError(kind)
    return out


def run_dist_case(case, N):
    """Returns dict(tests, violations, stats, digest)."""
    model = case["model"]
    states, index, trans, boundary = cme.reachable(model, vol=case.get("v0"), safe=case.get("safe", False),
                                                   cap=case.get("cap"), max_states=3000)
    n = len(states)
    Q = cme.generator(n, trans)
    grid = case["grid"]
    P = cme.marginals(Q, n, grid[1:])
    stats = {"dist_models": 1, "dist_runs": N, "dist_states": n, "dist_tests": 0}
    viols = []
    sig = {"kind": case["kind"], "family": case["family"], "safe": bool(case.get("safe"))}
    if boundary:
        mass = float(sum(P[-1][i] for i in boundary))
        worst = max(float(sum(p[i] for i in boundary)) for p in P)
        if worst > 1e-7:
            stats["dist_truncation_unsafe"] = 1
            return {"tests": [], "violations": [], "stats": stats, "digest": "trunc"}
    X = simulate_many(case, N)
    h = hashlib.sha256(np.ascontiguousarray(X).tobytes()).hexdigest()
    # map rows to state indices
    key = {s: i for i, s in enumerate(states)}
    idx = np.full((N, len(grid)), -1, dtype=np.int64)
    # encode states as mixed-radix integers for a fast lookup
    mx = X.reshape(-1, X.shape[2]).max(axis=0).astype(np.int64) + 2
    mn = X.reshape(-1, X.shape[2]).min(axis=0)
    tests = []
    if mn.min() < 0:
        viols.append({"class": "negative_count_in_distribution_run", "signature": sig, "detail": {"min": mn.tolist()}})
        return {"tests": tests, "violations": viols, "stats": stats, "digest": h}
    smax = np.array([max(s[k] for s in states) for k in range(len(model["species"]))], dtype=np.int64) + 2
    radix = np.maximum(mx, smax)
    mult = np.ones(len(radix), dtype=np.int64)
    for k in range(len(radix) - 2, -1, -1):
        mult[k] = mult[k + 1] * radix[k + 1]
    codes_states = np.array([int(np.dot(np.array(s, dtype=np.int64), mult)) for s in states], dtype=np.int64)
    sorter = np.argsort(codes_states)
    sorted_codes = codes_states[sorter]
    codes = X.astype(np.int64) @ mult          # (N, T)
    pos = np.searchsorted(sorted_codes, codes)
    pos = np.clip(pos, 0, n - 1)
    hit = sorted_codes[pos] == codes
    idx = np.where(hit, sorter[pos], -1)
    # first row must be the initial state
    if not np.all(idx[:, 0] == 0):
        viols.append({"class": "first_row_not_initial", "signature": sig, "detail": {}})
    for k in range(1, len(grid)):
        col = idx[:, k]
        outside = int((col < 0).sum())
        counts = np.bincount(col[col >= 0], minlength=n).astype(float)
        if outside and not case.get("cap"):
            bad = X[:, k][col < 0][0].tolist()
            viols.append({"class": "unreachable_state_reported", "signature": sig,
                          "detail": {"time": grid[k], "state": bad, "count": outside}})
            continue
        # states with zero probability observed: certain violation
        imp = cme.impossible_observed(counts, P[k - 1], N)
        if imp:
            viols.append({"class": "zero_probability_state_reported", "signature": sig,
                          "detail": {"time": grid[k], "state": list(states[imp[0]]), "count": int(counts[imp[0]])}})
            continue
        # counts outside the truncated set go to the remainder cell
        c2 = np.append(counts, outside)
        p2 = np.append(P[k - 1], max(0.0, 1.0 - P[k - 1].sum()))
        stat, dof, pv, cells = cme.chi_square(c2, p2, MIN_EXPECTED)
        tests.append({"what": f"marginal t={grid[k]}", "stat": stat, "dof": dof, "p": pv, "cells": cells})
    # two-time joints
    if n <= 250 and len(grid) >= 4:
        pairs = [(1, len(grid) - 1), (len(grid) // 2, len(grid) // 2 + 1)]
        for (a, b) in pairs:
            if a == b or b >= len(grid):
                continue
            Pt = cme.transition_matrix(Q, n, grid[b] - grid[a])
            joint = P[a - 1][:, None] * Pt
            ia, ib = idx[:, a], idx[:, b]
            ok = (ia >= 0) & (ib >= 0)
            flat = ia[ok] * n + ib[ok]
            counts = np.bincount(flat, minlength=n * n).astype(float)
            outside = int((~ok).sum())
            c2 = np.append(counts, outside)
            p2 = np.append(joint.ravel(), max(0.0, 1.0 - joint.sum()))
            imp = cme.impossible_observed(counts, joint.ravel(), N)
            if imp:
                i0 = imp[0]
                viols.append({"class": "zero_probability_transition_reported", "signature": sig,
                              "detail": {"times": [grid[a], grid[b]], "from": list(states[i0 // n]),
                                         "to": list(states[i0 % n]), "count": int(counts[i0])}})
                continue
            stat, dof, pv, cells = cme.chi_square(c2, p2, MIN_EXPECTED)
            tests.append({"what": f"joint t=({grid[a]},{grid[b]})", "stat": stat, "dof": dof, "p": pv, "cells": cells})
    stats["dist_tests"] = len(tests)
    for t in tests:
        if t["p"] < ALPHA:
            viols.append({"class": "distribution_rejected", "signature": sig,
                          "detail": dict(t, N=N, states=n)})
            break
    return {"tests": tests, "violations": viols, "stats": stats, "digest": h}


def run_phase(ctx, prop, kind, n_models, N, label="dist"):
    """Runs the oracle on n_models generated cases over the pool. Returns driver 'extra_phases' dict."""
    from . import runner
    seed = ctx["seed"]
    cases = [gen_dist_case(seeds.derive(seed, prop, label, i), kind,
                           family=netgen.FAMILIES[i % len(netgen.FAMILIES)]) for i in range(n_models)]

    def work(i):
        return run_dist_case(cases[i], N)

    outs = runner.run_indexed(work, n_models, jobs=ctx["jobs"], case_timeout=max(120.0, N * 0.004))
    stats = {}
    viols = []
    minp = 1.0
    sigs = []
    harness = []
    fams = {}
    for o in outs:
        if o.status == "ok":
            for k, v in o.value["stats"].items():
                stats[k] = stats.get(k, 0) + v
            for t in o.value["tests"]:
                minp = min(minp, t["p"])
            for v in o.value["violations"]:
                c = dict(cases[o.index], N=N, _dist=True)
                viols.append({"index": 10_000_000 + o.index, "case": c, "violation": v})
            sigs.append(o.value["digest"])
            f = cases[o.index]["family"]
            fams[f] = fams.get(f, 0) + 1
        elif o.status in ("crash", "hang"):
            c = dict(cases[o.index], N=N, _dist=True)
            viols.append({"index": 10_000_000 + o.index, "case": c,
                          "violation": {"class": o.status, "signature": {"kind": kind}, "detail": {"what": o.detail}}})
        else:
            harness.append(f"dist case {o.index}: {o.detail}")
    cov = {"distribution_tests": {"models": stats.get("dist_models", 0), "runs": stats.get("dist_runs", 0),
                                  "tests": stats.get("dist_tests", 0), "min_p_value": minp, "alpha_per_test": ALPHA,
                                  "families": fams, "skipped_truncation": stats.get("dist_truncation_unsafe", 0)}}
    return {"stats": stats, "violations": viols, "coverage": cov, "evaluations": stats.get("dist_runs", 0),
            "nontrivial": 0, "sim_time": 0.0, "sigs": sigs, "harness_errors": harness}
