"""C06 - every stochastic trajectory is a feasible reaction path (DESIGN.md 4.2).

All four stochastic simulators, plain and safe interface, seeded and scripted uniform streams; protocol-free row
invariants (lattice membership, integrality, conservation laws, non-negativity, absorption) plus the lock-step oracle.
"""
from simkit import netgen, pathinv, seeds, ssaengine as eng

PROPERTY = "C06"
LEVEL = "exploration"
RULE = ("case = seeded random network (1-4 species, 1-5 reactions, all propensity types, orders 0-3 with repeats) x grid x "
        "one of {SSA, volume SSA, delay SSA, delay+volume SSA} x {plain, safe} x {seeded, scripted} uniform stream with "
        "burst/stall/edge_pick/absorb/delay fault kinds; non-trivial = run with >= 1 firing; distinct = distinct hashes of "
        "the per-grid-interval multiset of (event kind, reaction) along the run")
ASSUMPTIONS = [
    "networks whose consuming reactions have non-mass-action rates are only run in safe mode (as the property states)",
    "scripted uniforms are values the real generator can return (k/(2^53-1), k in [1, 2^53-2]); 0 and 1 are never scripted",
    "non-negativity is not asserted for delay simulators on models with delayed reactants (they may legitimately overdraw)",
    "absorption is asserted only for rule-free, time-independent models in the plain and constant-volume simulators",
]
COMPONENTS = {"real": ["bioscrape.simulator SSASimulator / VolumeSSASimulator / DelaySSASimulator / DelayVolumeSSASimulator",
                       "ModelCSimInterface / SafeModelCSimInterface", "bioscrape.types Model, propensities, delays, Volume",
                       "bioscrape.random primitives (uniform source scripted in scripted mode)"],
              "stub": ["none (in scripted mode only the uniform source is replaced)"]}
TIERS = {
    "quick": {"cases": 16000, "block": 150, "case_timeout": 30.0},
    "thorough": {"cases": 600000, "block": 400, "case_timeout": 60.0},
}
MODES = ["ssa", "ssa", "ssa", "volume", "volume", "delay", "delay", "delay", "delayvolume"]


def gen_case(case_seed, cfg, modes=None, delays_in_plain=True, plain_delay_p=0.15, far_p=0.0, nonuniform_p=0.25):
    for attempt in range(50):
        case = _gen_case(seeds.derive(case_seed, "attempt", attempt), modes or MODES, delays_in_plain, plain_delay_p, far_p, nonuniform_p)
        if netgen.bounded(case["model"]) and event_budget_ok(case):
            return case
    return case


def has_delayed_reactants(model):
    return any(rx.get("delay") and (rx["delay"].get("reactants") or []) for rx in model["reactions"])


def netgen_all_mass_action(model):
    return all(rx["type"] == "massaction" for rx in model["reactions"])


def event_budget_ok(case, budget=150000):
    """Mean-field estimate of the number of firings over the whole grid, at the largest volume the run can reach."""
    vol = None
    if case.get("vol"):
        vol = case["vol"]["v0"]
        spec = case["vol"].get("spec")
        if spec and spec.get("kind") == "time_threshold":
            vol = vol * 2.0 ** min(8.0, case["grid"][-1] / spec["cycle"])
    ev = netgen.expected_events(case["model"], case["grid"][-1], vol)
    return ev[-1][0] >= case["grid"][-1] * (1 - 1e-9) and ev[-1][1] <= budget


def _gen_case(case_seed, modes, delays_in_plain=True, plain_delay_p=0.15, far_p=0.0, nonuniform_p=0.25):
    r = seeds.rng(case_seed, "gen")
    mode = r.choice(modes)
    stratum = r.choice(["random", "random", "random", "massaction", "absorb"])
    if stratum == "massaction":
        model = netgen.gen_open_network(r, allow=("massaction",))
    elif stratum == "absorb":
        model = netgen.gen_open_network(r, allow=("massaction",), max_rxn=3, init_hi=6)
        # drop zero-order production so that the network dies out
        model["reactions"] = [x for x in model["reactions"] if x["reactants"]] or \
            [{"reactants": [model["species"][0]], "products": [], "type": "massaction", "pd": {"k": 1.0}, "delay": None}]
        for s in model["species"]:
            model["init"][s] = r.choice([0, 1, 2, 3])
    else:
        model = netgen.gen_open_network(r)
    safe_pref = r.random() < 0.4
    vol = None
    if mode in ("volume", "delayvolume"):
        v0 = netgen.nice(r.uniform(0.2, 5.0), 3)
        vol = {"v0": v0}
        if r.random() < 0.3:
            vol["spec"] = {"kind": "time_threshold", "cycle": netgen.nice(r.uniform(2, 40)),
                           "vdiv": netgen.nice(v0 * r.uniform(1.3, 3.0)), "noise": r.choice([0.0, 0.05, 0.2])}
    # the plain simulator has no clock of its own: there (and only there) non-uniform grids are legal input as well
    nonuniform = mode == "ssa" and r.random() < nonuniform_p
    grid = netgen.gen_grid(r, model, vol=(vol or {}).get("v0"),
                           target_events=400 if stratum == "absorb" else None, uniform=not nonuniform)
    dt = grid[1] - grid[0]
    if vol and vol.get("spec"):
        # keep the total growth bounded (<= 2^4) even if the cell never divides: zero-order rates scale with the volume
        vol["spec"]["cycle"] = netgen.nice(max(grid[-1], dt) * r.uniform(0.25, 3.0))
    if mode in ("delay", "delayvolume"):
        netgen.add_delays(r, model, dt, grid[-1], p=0.7, markers=not safe_pref, far=(r.random() < far_p))
    elif delays_in_plain and r.random() < plain_delay_p:
        # simulators without delay support apply both parts at the firing time
        netgen.add_delays(r, model, dt, grid[-1], p=0.5, delayed_reactants=safe_pref)
    # consumers with non-mass-action rates are only legal in safe mode (judged after the delay decoration, which can
    # turn a catalyst into an immediate consumer)
    safe = safe_pref
    if netgen.consumes_non_massaction(model):
        safe = True
        if mode in ("delay", "delayvolume"):
            netgen.strip_markers(model)
    kinds = [k for k in ("burst", "stall", "edge_pick", "filler") if r.random() < 0.5]
    if mode in ("delay", "delayvolume"):
        kinds += [k for k in ("neg_delay", "late_delay") if r.random() < 0.5]
    script = eng.gen_script(r, kinds) if kinds and r.random() < 0.6 else []
    entry = "direct" if (mode == "delayvolume" or (vol and vol.get("spec"))) else r.choice(["direct", "model", "iface"])
    prelude = None
    if r.random() < 0.25:
        # deterministic preludes need a model that stays in the non-negative domain under the ODE: mass action only
        opts = ["ssa", "volume", "delay", "delayvolume", "safe"] + (["det"] if netgen_all_mass_action(model) else [])
        if has_delayed_reactants(model):
            opts = ["delay", "delayvolume"] if mode in ("delay", "delayvolume") else ["ssa", "volume", "safe"]
        prelude = r.choice(opts)
    if nonuniform and len(grid) >= 3 and any(abs((grid[i + 1] - grid[i]) - (grid[1] - grid[0])) > 1e-12 for i in range(len(grid) - 1)):
        kinds = kinds + ["nonuniform_grid"]
    # model-edit history before the run: the Model is initialised, then un-initialised by declaring an unused parameter and
    # initialised again (once or twice) - whatever initialisation rebuilds must be rebuilt, not appended to
    reinit = seeds.rng(case_seed, "reinit").choice([0, 0, 0, 1, 2])
    return {"model": model, "grid": grid, "mode": mode, "safe": safe, "entry": entry, "vol": vol,
            "bseed": seeds.bioscrape_seed(case_seed, "run"), "script": script, "kinds": kinds, "stratum": stratum,
            "prelude": prelude, "reinit": reinit}


def fault_counters(case, raw, ref, stats):
    if ref is None:
        return
    if ref.max_interval_firings >= 5:
        stats["fired_burst"] = stats.get("fired_burst", 0) + 1
    if ref.lambda_zero_seen:
        stats["fired_absorb"] = stats.get("fired_absorb", 0) + 1
    # stall: >= 3 consecutive grid intervals without any event although the run had firings
    grid = case["grid"]
    times = sorted(e[0] for e in ref.events if e[1] == "fire")
    if times:
        gaps = 0
        best = 0
        j = 0
        for i in range(1, len(grid)):
            while j < len(times) and times[j] <= grid[i - 1]:
                j += 1
            if j < len(times) and times[j] <= grid[i]:
                gaps = 0
            else:
                gaps += 1
                best = max(best, gaps)
        if best >= 3 and not ref.lambda_zero_seen:
            stats["fired_stall"] = stats.get("fired_stall", 0) + 1
    if getattr(ref, "delays", None):
        dt = grid[1] - grid[0]
        if any(d <= 0 for j, d in ref.delays if case["model"]["reactions"][j].get("delay")):
            stats["fired_neg_or_zero_delay"] = stats.get("fired_neg_or_zero_delay", 0) + 1
        if any(0 < d < dt for _, d in ref.delays):
            stats["fired_tiny_delay"] = stats.get("fired_tiny_delay", 0) + 1
        if any(d > grid[-1] for _, d in ref.delays):
            stats["fired_late_delay"] = stats.get("fired_late_delay", 0) + 1
    if case.get("prelude"):
        stats["fired_prelude_" + case["prelude"]] = stats.get("fired_prelude_" + case["prelude"], 0) + 1
    if case.get("reinit"):
        stats["fired_reinitialised_model"] = stats.get("fired_reinitialised_model", 0) + 1
    if "nonuniform_grid" in case.get("kinds", []):
        stats["fired_nonuniform_grid"] = stats.get("fired_nonuniform_grid", 0) + 1
    if raw.get("script_used"):
        stats["scripted_runs"] = stats.get("scripted_runs", 0) + 1
        stats["scripted_uniforms"] = stats.get("scripted_uniforms", 0) + int(raw["script_used"])
    if ref.chosen_zero:
        stats["zero_weight_choices"] = stats.get("zero_weight_choices", 0) + ref.chosen_zero


def run_case(case):
    raw = eng.execute(case)
    ls = eng.lockstep(case, raw)
    stats = dict(ls["stats"])
    viols = list(ls["violations"])
    ref = ls.get("ref")
    stats["mode_" + case["mode"]] = 1
    stats["safe_runs"] = 1 if case.get("safe") else 0
    if not raw.get("error"):
        viols += pathinv.check_rows(case, raw, stats)
    fault_counters(case, raw, ref, stats)
    nfire = sum(ref.n_fired) if ref is not None else 0
    stats["firings"] = nfire
    if ref is not None and hasattr(ref, "n_delivered"):
        stats["deliveries"] = sum(ref.n_delivered)
    if ref is not None and hasattr(ref, "growth_steps"):
        stats["growth_steps"] = ref.growth_steps
    return {"violations": viols, "stats": stats, "sig": eng.event_signature(ref, case),
            "nontrivial": nfire >= 1, "digest": eng.digest(raw), "sim_time": case["grid"][-1]}


def crash_signature(case):
    return {"mode": case["mode"], "safe": bool(case.get("safe"))}


def shrink(case):
    m = case["model"]
    # prefer seeded over scripted
    if case.get("prelude"):
        yield dict(case, prelude=None)
    if case.get("reinit"):
        yield dict(case, reinit=case["reinit"] - 1)
    if case.get("script"):
        c = dict(case, script=[])
        yield c
        half = case["script"][: len(case["script"]) // 2]
        if half != case["script"]:
            yield dict(case, script=half)
    # drop reactions
    for i in range(len(m["reactions"])):
        if len(m["reactions"]) > 1:
            mm = dict(m, reactions=m["reactions"][:i] + m["reactions"][i + 1:])
            yield dict(case, model=mm)
    # drop delays
    for i, rx in enumerate(m["reactions"]):
        if rx.get("delay"):
            rr = dict(rx, delay=None)
            yield dict(case, model=dict(m, reactions=m["reactions"][:i] + [rr] + m["reactions"][i + 1:]))
    # shorten grid
    g = case["grid"]
    if len(g) > 3:
        yield dict(case, grid=g[: max(3, len(g) // 2)])
    # lower counts
    for s, v in m["init"].items():
        if v > 1:
            yield dict(case, model=dict(m, init=dict(m["init"], **{s: v // 2})))
    if case.get("safe") and not netgen.consumes_non_massaction(m):
        yield dict(case, safe=False)
    if case.get("entry") in ("model", "iface"):
        yield dict(case, entry="direct")
    if case.get("vol") and case["vol"].get("spec"):
        yield dict(case, vol={"v0": case["vol"]["v0"]})


def sample(case, res):
    return {"mode": case["mode"], "safe": case["safe"], "entry": case["entry"], "vol": case["vol"],
            "species": case["model"]["species"], "init": case["model"]["init"],
            "reactions": [{k: v for k, v in rx.items()} for rx in case["model"]["reactions"]][:3],
            "grid": [case["grid"][0], case["grid"][1], "...", case["grid"][-1]], "n_grid": len(case["grid"]),
            "script_len": len(case["script"]), "bseed": case["bseed"], "firings": res["stats"].get("firings")}


def reach_warnings(stats):
    out = []
    for k in ("fired_burst", "fired_stall", "fired_absorb", "fired_neg_or_zero_delay", "fired_tiny_delay",
              "fired_late_delay", "scripted_runs", "mode_ssa", "mode_volume", "mode_delay", "mode_delayvolume",
              "absorbed_runs", "nonneg_runs"):
        if stats.get(k, 0) == 0:
            out.append(f"kind {k} never fired in this batch")
    return out


def finish_coverage(cov, stats, cfg):
    cov["fault_kinds"] = {k[6:]: {"fired": v} for k, v in stats.items() if k.startswith("fired_")}
    cov["events"] = {"firings": stats.get("firings", 0), "deliveries": stats.get("deliveries", 0),
                     "growth_steps": stats.get("growth_steps", 0)}
    cov["lockstep"] = {"match": stats.get("lockstep_match", 0), "semantic_mismatch": stats.get("lockstep_semantic", 0),
                       "timing_divergence": stats.get("lockstep_timing_divergence", 0),
                       "rows_differ": stats.get("lockstep_rows", 0)}
