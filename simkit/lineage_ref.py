"""Lock-step reference for whole lineages (DESIGN.md 4.11 (ii)): consumes the traced dice of one real
py_SimulateCellLineage run - waiting times, choices, rule noise, partition uniforms and binomial counts - and predicts every cell
(time axis, rows, volumes), every partition and the order in which cells are created.

Mirrors today's draw protocol of LineageSSASimulator; a structural divergence is never reported by itself (the protocol-free
oracle in lineage_engine.py decides), a row / volume mismatch under a matching record sequence is."""
import math

from . import lineage_engine as le, refmodel as rm
from .refsim import Structure


class Cell:
    __slots__ = ("t0", "t", "V0", "V", "state", "divided", "dead", "times", "rows", "vols", "parent", "daughters")

    def __init__(self, t0, V0, state, parent=None):
        self.t0 = t0
        self.t = t0
        self.V0 = V0
        self.V = V0
        self.state = dict(state)
        self.divided = -1
        self.dead = -1
        self.times, self.rows, self.vols = [], [], []
        self.parent = parent
        self.daughters = [None, None]


class LinRef:
    def __init__(self, lm, grid, tape, safe=False):
        self.lm = lm
        self.model = lm["model"]
        self.grid = list(grid)
        self.tape = tape
        self.safe = safe
        self.sem = []
        self.params = dict(self.model.get("params", {}))
        self.species = list(self.model["species"])
        self.net = []
        for rx in self.model["reactions"]:
            imm, dly = rm.stoich_columns(rx)
            c = dict(imm)
            for s, v in dly.items():
                c[s] = c.get(s, 0) + v
            self.net.append(c)
        g = lm["growth"]
        self.n_vol_events = 1 if g["kind"].startswith("event") else 0
        dv = lm.get("division") or {"kind": "none"}
        self.div_rules = [dv] if dv["kind"].startswith("rule") else []
        self.div_events = ([dv] if dv["kind"] == "event" else []) + ([lm["division2"]] if lm.get("division2") else [])
        # splitter of each division event, in event order
        self.event_splitters = ([lm.get("splitter")] if dv["kind"] == "event" else []) + ([lm["splitter2"]] if lm.get("division2") else [])
        de = lm.get("death")
        self.death_rules = [de] if de and de["kind"].startswith("rule") else []
        self.death_events = [de] if de and de["kind"] == "event" else []
        self.firings = 0
        self.lambda_zero_seen = False

    # ------------------------------------------------------------ helpers
    def expect(self, kind):
        r = self.tape.next(kind)
        if r is None:
            raise Structure(f"expected {kind}, found {self.tape.peek()}")
        return r

    def props(self, cell):
        if self.safe:
            a = rm.safe_propensities(self.model, cell.state, self.params, cell.t, cell.V)
        else:
            a = rm.propensities(self.model, cell.state, self.params, cell.t, cell.V, True)
        g = self.lm["growth"]
        if self.n_vol_events:
            a.append(float(g["k"]))
        for d in self.div_events:
            a.append(float(d["k"]))
        for d in self.death_events:
            a.append(float(d["k"]))
        if any(x != x for x in a):
            raise Structure("rate undefined at the tracked state")
        return a

    def noise(self, std):
        rec = self.expect("N")
        if not (rm.close(rec[1], 0.0, 1e-12, 1e-300) and rm.close(rec[2], std)):
            self.sem.append({"what": "rule_noise_args", "expected": [0.0, std], "traced": [rec[1], rec[2]]})
        return rec[3]

    def check_death(self, cell):
        for i, d in enumerate(self.death_rules):
            x = cell.state[d["specie"]]
            th = float(d["threshold"])
            if d["comp"] == ">" and x > th - 1e-9:
                return i
            if d["comp"] == "<" and x < th + 1e-9:
                return i
            if d["comp"] == "=" and th - 1e-9 < x < th + 1e-9:
                return i
        return -1

    def check_division(self, cell):
        for i, d in enumerate(self.div_rules):
            th = float(d["threshold"])
            if d["kind"] == "rule_general":
                if cell.V - th > 0:
                    return i
                continue
            if "noise" in d:
                th = th + self.noise(d["noise"])
                eps = 0.0
            else:
                eps = 1e-9
            if d["kind"] == "rule_time":
                val = cell.t - cell.t0
            elif d["kind"] == "rule_volume":
                val = cell.V
            else:
                val = cell.V - cell.V0
            if val >= th - eps:
                return i
        return -1

    def grow_rule(self, cell, dt):
        g = self.lm["growth"]
        k = g["kind"]
        if not k.startswith("rule"):
            return cell.V
        if k == "rule_linear":
            rate = g["rate"] + (self.noise(g["noise"]) if "noise" in g else 0.0) if "noise" in g else g["rate"]
            return cell.V + rate * dt
        if k == "rule_multiplicative":
            rate = g["rate"] + self.noise(g["noise"]) if "noise" in g else g["rate"]
            return cell.V + cell.V * rate * dt
        if k == "rule_ode":
            return cell.V + (g["rate"] * cell.V) * dt
        if k == "rule_assignment":
            return 1 + g["rate"] * cell.t
        raise ValueError(k)

    def vol_event(self, cell):
        g = self.lm["growth"]
        if g["kind"] == "event_linear":
            return cell.V + g["rate"]
        if g["kind"] == "event_multiplicative":
            return cell.V * (1 + g["rate"])
        return cell.V + g["rate"]

    # ------------------------------------------------------------ one cell
    def sim_cell(self, cell, tp):
        n = len(tp)
        if n < 2:
            raise Structure("cell with fewer than two time points (edge not modelled)")
        delta = tp[1] - tp[0]
        nqt = tp[1]
        final = tp[-1]
        idx = 0
        rule_step = True
        steps = 0
        while idx < n:
            steps += 1
            if steps > 3_000_000:
                raise Structure("reference step cap")
            rm.apply_rules(self.model, cell.state, self.params, cell.t, rule_step, delta, vol=cell.V)
            dead = self.check_death(cell)
            divided = self.check_division(cell)
            if dead >= 0 and divided >= 0:
                cell.dead = dead
                break
            if dead >= 0:
                cell.dead = dead
                break
            if divided >= 0:
                cell.divided = divided
                break
            a = self.props(cell)
            Lam = 0.0
            for x in a:
                Lam += x
            if Lam == 0:
                self.lambda_zero_seen = True
                proposed = final + delta
                rule_step = True
            else:
                rec = self.expect("E")
                if not rm.close(rec[1], Lam):
                    self.sem.append({"what": "Lambda", "t": cell.t, "state": dict(cell.state), "volume": cell.V,
                                     "expected": Lam, "traced": rec[1]})
                proposed = cell.t + rec[2]
                rule_step = False
            if nqt < proposed and nqt < final:
                cell.t = nqt
                nqt += delta
                move = True
                rule_step = True
            elif proposed > final - 10e-8:
                cell.t = final
                move = True
                rule_step = True
            else:
                cell.t = proposed
                move = False
            while idx < n and tp[idx] <= cell.t:
                cell.times.append(tp[idx])
                cell.rows.append([cell.state[s] for s in self.species])
                cell.vols.append(cell.V)
                idx += 1
            if move:
                cell.V = self.grow_rule(cell, delta)
            else:
                rec = self.expect("D")
                if rec[1] != len(a) or not rm.vec_close(rec[4], a):
                    self.sem.append({"what": "weights", "t": cell.t, "state": dict(cell.state), "volume": cell.V,
                                     "expected": a, "traced": rec[4]})
                j = rec[3]
                if j < 0 or j >= len(a):
                    raise Structure("choice out of range")
                if a[j] <= 0:
                    self.sem.append({"what": "zero_weight_chosen", "t": cell.t, "choice": j, "weights": a})
                nr = len(self.model["reactions"])
                if j < nr:
                    rm.apply_column(cell.state, self.net[j])
                    self.firings += 1
                elif j < nr + self.n_vol_events:
                    cell.V = self.vol_event(cell)
                elif j < nr + self.n_vol_events + len(self.div_events):
                    cell.divided = j - nr - self.n_vol_events + len(self.div_rules)
                    break
                else:
                    cell.dead = j - nr - self.n_vol_events - len(self.div_events) + len(self.death_rules)
                    break
        if cell.divided >= 0 or cell.dead >= 0:
            # (<=: a cell that dies or divides at its very first check still reports its actual first row)
            if idx < n and cell.t <= tp[idx]:
                cell.times.append(tp[idx])
                cell.rows.append([cell.state[s] for s in self.species])
                cell.vols.append(cell.V)
                idx += 1
            if idx == 0:
                raise Structure("cell ended before its first row")

    # ------------------------------------------------------------ partition
    def partition(self, mother):
        ind = mother.divided
        if ind < len(self.div_rules):
            sp = self.lm["splitter"]
        else:
            sp = self.event_splitters[ind - len(self.div_rules)]
        lmx = dict(self.lm, splitter=sp)
        vm = le.volume_mode(lmx)
        V = mother.vols[-1]
        x = dict(zip(self.species, mother.rows[-1]))
        if vm == "binomial":
            rec = self.expect("U")
            p = 0.5 - rec[1] * sp["noise"] / 2.0
            q = 1 - p
            vd, ve = V * p, V * q
        elif vm == "duplicate":
            p = q = 1.0
            vd = ve = V
        else:
            p = q = 0.5
            vd = ve = V * 0.5
        d, e = dict(x), dict(x)
        for s in self.species:
            if le.species_mode(lmx, s) != "perfect":
                continue
            dval = p * x[s]
            amount = int(dval)
            if dval - amount <= 1e-8 and amount >= 0:
                d[s] = float(amount)
            else:
                rec = self.expect("U")
                d[s] = float(int(dval) + 1) if rec[1] <= p else float(int(dval))
            e[s] = x[s] - d[s]
        for s in self.species:
            if le.species_mode(lmx, s) != "binomial":
                continue
            rec = self.expect("B")
            if not (rm.close(rec[1], x[s]) and rm.close(rec[2], p)):
                self.sem.append({"what": "binomial_args", "species": s, "expected": [x[s], p], "traced": [rec[1], rec[2]]})
            if rec[3] < 0 or rec[3] > x[s] + 0.5:
                self.sem.append({"what": "binomial_value_out_of_range", "species": s, "N": x[s], "value": rec[3]})
            d[s] = float(rec[3])
            e[s] = x[s] - d[s]
        t = mother.times[-1]
        return Cell(t, vd, d, mother), Cell(t, ve, e, mother)

    # ------------------------------------------------------------ whole lineage
    def run(self, max_cells=200000):
        grid = self.grid
        final = grid[-1]
        x0 = {s: float(self.model["init"].get(s, 0)) for s in self.species}
        root = Cell(0.0, 1.0, x0)
        root.t = 0.0
        cells = [root]
        self.sim_cell(root, grid)
        i = 0
        while i < len(cells):
            c = cells[i]
            i += 1
            t_end = c.times[-1]
            if t_end >= final - 1e-9 or c.dead >= 0:
                continue
            if c.divided >= 0:
                if c.t0 == t_end:
                    raise Structure("cells dividing within one time step (the simulator refuses)")
                d1, d2 = self.partition(c)
                tp = [t for t in grid if t >= t_end]
                self.sim_cell(d1, tp)
                self.sim_cell(d2, tp)
                c.daughters = [len(cells), len(cells) + 1]
                d1.parent = d2.parent = i - 1
                cells.append(d1)
                cells.append(d2)
                if len(cells) > max_cells:
                    raise Structure("cell cap")
        return cells


def lockstep_lineage(case, out, stats):
    """Returns list of violations (semantic mismatches, or rows differing under a matching protocol)."""
    import numpy as np
    from . import trace as tr
    lm = case["lm"]
    viols = []
    sig = {"division": lm["division"]["kind"], "growth": lm["growth"]["kind"], "safe": bool(case.get("safe"))}
    if out.get("error") or out.get("dropped") or "cells" not in out:
        return viols
    tape = tr.Tape(out["recs"])
    ref = LinRef(lm, out["grid"], tape, safe=bool(case.get("safe")))
    try:
        cells = ref.run()
    except Structure as e:
        stats["lin_lockstep_divergence"] = stats.get("lin_lockstep_divergence", 0) + 1
        if ref.sem:
            first = ref.sem[0]
            viols.append({"class": "lineage_semantic_" + first["what"], "signature": sig, "detail": {"first": first}})
        return viols
    if ref.sem:
        first = ref.sem[0]
        viols.append({"class": "lineage_semantic_" + first["what"], "signature": sig, "detail": {"first": first, "count": len(ref.sem)}})
        return viols
    if tape.remaining():
        stats["lin_lockstep_divergence"] = stats.get("lin_lockstep_divergence", 0) + 1
        return viols
    real = out["cells"]
    order = out["order"]
    perm = [order.index(s) for s in lm["model"]["species"]]
    if len(real) != len(cells):
        viols.append({"class": "lineage_differs_under_matching_protocol", "signature": sig,
                      "detail": {"what": "number of cells", "reported": len(real), "predicted": len(cells)}})
        return viols
    for i, (a, b) in enumerate(zip(real, cells)):
        ok = len(a["time"]) == len(b.times) and np.array_equal(a["time"], np.array(b.times)) \
            and np.array_equal(a["data"][:, perm], np.array(b.rows, dtype=float).reshape(len(b.rows), len(perm))) \
            and np.allclose(a["vol"], np.array(b.vols), rtol=1e-12, atol=0)
        if ok and (a["parent"] != b.parent or a["daughters"] != b.daughters):
            ok = False
        if not ok:
            viols.append({"class": "lineage_differs_under_matching_protocol", "signature": sig,
                          "detail": {"cell": i, "reported_times": a["time"][:4].tolist(), "predicted_times": b.times[:4],
                                     "reported_rows": a["data"][:, perm][:3].tolist(), "predicted_rows": b.rows[:3],
                                     "reported_vols": a["vol"][:4].tolist(), "predicted_vols": b.vols[:4],
                                     "reported_links": [a["parent"], a["daughters"]], "predicted_links": [b.parent, b.daughters],
                                     "n_rows": [len(a["time"]), len(b.times)]}})
            return viols
    stats["lin_lockstep_match"] = stats.get("lin_lockstep_match", 0) + 1
    stats["lin_lockstep_cells"] = stats.get("lin_lockstep_cells", 0) + len(cells)
    if ref.lambda_zero_seen:
        stats["fired_lineage_lambda_zero"] = stats.get("fired_lineage_lambda_zero", 0) + 1
    return viols


def lockstep_single_cell(case, raw, stats):
    """C09 lineage mode: one cell, general rules, benign linear growth, no division: every traced rate / weight vector must equal the
    closed forms at the rule-updated state and parameters, and every row the predicted one."""
    import numpy as np
    from . import trace as tr
    viols = []
    sig = {"mode": "lineage"}
    if raw.get("error") or raw.get("dropped") or raw.get("rows") is None:
        return viols
    lm = {"model": case["model"], "growth": {"kind": "rule_linear", "rate": 0.01}, "division": {"kind": "none"},
          "death": case.get("lin_death"), "splitter": None}
    tape = tr.Tape(raw["recs"])
    ref = LinRef(lm, case["grid"], tape, safe=bool(case.get("safe")))
    x0 = {s: float(case["model"]["init"].get(s, 0)) for s in ref.species}
    cell = Cell(0.0, 1.0, x0)
    try:
        ref.sim_cell(cell, list(case["grid"]))
    except Structure:
        stats["lin_lockstep_divergence"] = stats.get("lin_lockstep_divergence", 0) + 1
        if ref.sem:
            viols.append({"class": "lineage_semantic_" + ref.sem[0]["what"], "signature": sig, "detail": {"first": ref.sem[0]}})
        return viols
    if ref.sem:
        viols.append({"class": "lineage_semantic_" + ref.sem[0]["what"], "signature": sig,
                      "detail": {"first": ref.sem[0], "count": len(ref.sem)}})
        return viols
    if tape.remaining():
        stats["lin_lockstep_divergence"] = stats.get("lin_lockstep_divergence", 0) + 1
        return viols
    order = raw["species_order"]
    perm = [order.index(s) for s in ref.species]
    got = raw["rows"][:, perm]
    exp = np.array(cell.rows, dtype=float).reshape(len(cell.rows), len(perm))
    if got.shape != exp.shape or not np.allclose(got, exp, rtol=1e-12, atol=1e-300) or \
            not np.allclose(raw["vols"], np.array(cell.vols), rtol=1e-12, atol=0):
        k = None
        if got.shape == exp.shape:
            b = np.argwhere(~np.isclose(got, exp, rtol=1e-12, atol=1e-300))
            k = int(b[0][0]) if len(b) else None
        viols.append({"class": "rows_differ_under_matching_protocol", "signature": sig,
                      "detail": {"first_bad_row": k, "got": got[k].tolist() if k is not None else None,
                                 "expected": exp[k].tolist() if k is not None else None,
                                 "shapes": [list(got.shape), list(exp.shape)]}})
        return viols
    stats["lin_lockstep_match"] = stats.get("lin_lockstep_match", 0) + 1
    return viols
