"""C05 - stochastic simulation samples the chemical master equation exactly (DESIGN.md 4.1).

Oracle A: lock-step refinement of every SSA event against the reference direct method (seeded and scripted streams).
Oracle B: protocol-free CME goodness of fit (marginals + two-time joints) on finite-state networks.
Primitives: twister vs an independent MT19937-64, exact transforms, goodness of fit of every sampler.
"""
from simkit import distoracle, pathinv, primitives, seeds, ssaengine as eng
from checks import c06

PROPERTY = "C05"
LEVEL = "exploration"
RULE = ("lock-step part: case = seeded random network (all propensity types, orders 0-3 with repeats, catalysts) x grid x "
        "{plain, safe interface} x {direct simulator call, py_simulate_model} x {seeded, scripted} stream, every traced "
        "waiting-time rate and choice-weight vector compared with the closed-form propensities at the tracked state and every "
        "reported row with the predicted one; non-trivial = run with >= 1 firing; distinct = distinct per-interval event "
        "signatures. distribution part: N seeded runs per finite-state model against the CME (counted under "
        "coverage.distribution_tests)")
ASSUMPTIONS = [
    "time-independent propensities (as the property states)",
    "distribution claims are decided as goodness of fit at per-test level 1e-9 on networks with <= 3000 reachable states; "
    "birth processes are truncated where the discarded mass is < 1e-7",
    "lock-step mirrors today's draw protocol (redraw after each grid point); a different exact protocol degrades to the "
    "distribution oracle instead of alarming",
]
COMPONENTS = c06.COMPONENTS
TIERS = {
    "quick": {"cases": 16000, "block": 200, "case_timeout": 30.0, "dist_models": 32, "dist_N": 40000, "prim_n": 100000},
    "thorough": {"cases": 400000, "block": 500, "case_timeout": 60.0, "dist_models": 200, "dist_N": 400000,
                 "prim_n": 1000000},
}


def gen_case(case_seed, cfg):
    return c06.gen_case(case_seed, cfg, modes=["ssa"], delays_in_plain=False)


def run_case(case):
    if case.get("_dist"):
        out = distoracle.run_dist_case(case, case["N"])
        return {"violations": out["violations"], "stats": out["stats"], "sig": None, "nontrivial": False,
                "digest": out["digest"]}
    if case.get("_prim"):
        out = primitives.run(case["seed"], case["n_stat"], case["n_seeds"])
        return {"violations": [v["violation"] for v in out["violations"]], "stats": out["stats"], "sig": None,
                "nontrivial": False, "digest": ""}
    raw = eng.execute(case)
    ls = eng.lockstep(case, raw)
    stats = dict(ls["stats"])
    viols = list(ls["violations"])
    ref = ls.get("ref")
    stats["safe_runs"] = 1 if case.get("safe") else 0
    stats["entry_" + case.get("entry", "direct")] = 1
    if not raw.get("error"):
        viols += pathinv.check_rows(case, raw, stats)
    c06.fault_counters(case, raw, ref, stats)
    nfire = sum(ref.n_fired) if ref is not None else 0
    stats["firings"] = nfire
    if ref is not None:
        for rx in case["model"]["reactions"]:
            stats["ptype_" + rx["type"]] = stats.get("ptype_" + rx["type"], 0) + 1
    return {"violations": viols, "stats": stats, "sig": eng.event_signature(ref, case),
            "nontrivial": nfire >= 1, "digest": eng.digest(raw), "sim_time": case["grid"][-1]}


def crash_signature(case):
    return {"mode": case.get("mode", case.get("kind")), "safe": bool(case.get("safe"))}


def shrink(case):
    if case.get("_dist") or case.get("_prim"):
        return
    yield from c06.shrink(case)


def sample(case, res):
    return c06.sample(case, res)


def extra_phases(ctx):
    cfg = ctx["cfg"]
    out = distoracle.run_phase(ctx, PROPERTY, "ssa", cfg["dist_models"], cfg["dist_N"])
    pr = primitives.run(seeds.derive(ctx["seed"], "C05", "prim"), cfg["prim_n"])
    for k, v in pr["stats"].items():
        out["stats"][k] = out["stats"].get(k, 0) + v
    out["violations"] += pr["violations"]
    out["coverage"].update(pr["coverage"])
    return out


def reach_warnings(stats):
    out = []
    for k in ("fired_burst", "fired_stall", "fired_absorb", "scripted_runs", "safe_runs", "entry_direct", "entry_model",
              "ptype_massaction", "ptype_general", "ptype_hillpositive", "ptype_hillnegative",
              "ptype_proportionalhillpositive", "ptype_proportionalhillnegative", "dist_models"):
        if stats.get(k, 0) == 0:
            out.append(f"kind {k} never fired in this batch")
    return out


def finish_coverage(cov, stats, cfg):
    c06.finish_coverage(cov, stats, cfg)
